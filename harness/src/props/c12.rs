//! C12 — logistic and Tweedie regression return stationary points; probabilities valid.
//!
//! Oracles (all written from the property text, evaluated in f64 on exactly the data linfa saw):
//!  * binary:  J(w,b) = sum_i log(1+exp(-t_i (x_i.w+b))) + alpha/2 |w|^2, t from `labels()`
//!  * multi:   J(W,b) = -sum_i log softmax(x_i W + b)[y_i] + alpha/2 |W|_F^2, columns as `classes()`
//!  * Tweedie: J(w,b) = 1/2 (sum_i d_p(y_i, h(x_i.w+b)) + alpha |w|^2), textbook unit deviances
//! Stationarity = analytic gradient of J at the returned parameters (the analytic gradients are
//! themselves validated against central differences of J in the family `oracle-selfcheck`).
use crate::fw::*;
use crate::gen::*;
use crate::oracle::spd_solve;
use linfa::traits::{Fit, Predict};
use linfa::DatasetBase;
use linfa_linear::{Link, TweedieRegressor};
use linfa_logistic::{
    FittedLogisticRegression, LogisticRegression, MultiFittedLogisticRegression,
    MultiLogisticRegression,
};
use ndarray::{s, Array1, Array2, ArrayView2};
use rand::Rng as _;
use serde_json::{json, Value};
use std::collections::BTreeSet;
use std::fmt::Debug;

macro_rules! fail {
    ($sig:expr, $($j:tt)+) => {
        return Err(violated($sig, json!($($j)+)))
    };
}

// ------------------------------------------------------------------------------------ basics

#[derive(Clone, Copy, PartialEq, Eq, Debug)]
enum Fl {
    F32,
    F64,
}
impl Fl {
    fn eps(self) -> f64 {
        match self {
            Fl::F32 => f32::EPSILON as f64,
            Fl::F64 => f64::EPSILON,
        }
    }
    fn name(self) -> &'static str {
        match self {
            Fl::F32 => "f32",
            Fl::F64 => "f64",
        }
    }
    fn round(self, v: f64) -> f64 {
        match self {
            Fl::F32 => v as f32 as f64,
            Fl::F64 => v,
        }
    }
    fn round_arr(self, a: &Array2<f64>) -> Array2<f64> {
        a.mapv(|v| self.round(v))
    }
}

#[derive(Clone, Copy, PartialEq, Eq, Debug)]
enum Layout {
    C,
    F,
    Strided,
    /// rows stored back to front behind a negative row stride
    RowsReversed,
}
fn pick_layout(rng: &mut Rng) -> Layout {
    match rng.gen_range(0..5) {
        0 => Layout::F,
        1 => Layout::Strided,
        2 => Layout::RowsReversed,
        _ => Layout::C,
    }
}

fn sigmoid(z: f64) -> f64 {
    if z >= 0.0 {
        1.0 / (1.0 + (-z).exp())
    } else {
        let e = z.exp();
        e / (1.0 + e)
    }
}
/// log(1+exp(z))
fn log1pexp(z: f64) -> f64 {
    if z > 0.0 {
        z + (-z).exp().ln_1p()
    } else {
        z.exp().ln_1p()
    }
}
fn inf_norm(v: &[f64]) -> f64 {
    v.iter().fold(0.0, |a, x| if x.is_nan() { f64::NAN } else { a.max(x.abs()) })
}
fn small_hash<T: std::hash::Hash>(t: &T) -> u64 {
    use std::hash::Hasher;
    #[allow(deprecated)]
    let mut h = std::hash::SipHasher::new();
    t.hash(&mut h);
    h.finish() % 1_000_000
}
fn fvec(v: &[f64]) -> Value {
    json!(v.iter().map(|x| if x.is_finite() { json!(x) } else { json!(format!("{x}")) }).collect::<Vec<_>>())
}

/// row i of x extended with the intercept column: (inf-norm, squared 2-norm)
fn row_norms(x: &Array2<f64>, i: usize, intercept: bool) -> (f64, f64) {
    let mut m: f64 = if intercept { 1.0 } else { 0.0 };
    let mut s: f64 = if intercept { 1.0 } else { 0.0 };
    for v in x.row(i) {
        m = m.max(v.abs());
        s += v * v;
    }
    (m, s)
}

/// damped Newton minimiser used only by the harness (precondition "a finite minimiser exists" and
/// the recorded sub-optimality of the returned point)
fn newton_min(
    theta0: Vec<f64>,
    f: &dyn Fn(&[f64]) -> (f64, Vec<f64>, Array2<f64>),
    iters: usize,
) -> (Vec<f64>, f64, bool) {
    let d = theta0.len();
    let mut th = theta0;
    let (mut j, mut g, mut h) = f(&th);
    for _ in 0..iters {
        if !j.is_finite() {
            return (th, j, false);
        }
        let tr: f64 = (0..d).map(|i| h[[i, i]]).sum::<f64>() / d as f64;
        let mut ridge = 1e-12 * tr + 1e-300;
        let g1 = Array1::from(g.clone());
        let mut step = None;
        for _ in 0..8 {
            let mut hh = h.clone();
            for i in 0..d {
                hh[[i, i]] += ridge;
            }
            if let Some(sv) = spd_solve(&hh, &g1) {
                if sv.iter().all(|v| v.is_finite()) {
                    step = Some(sv);
                    break;
                }
            }
            ridge *= 1e3;
        }
        let Some(step) = step else { return (th, j, false) };
        let dec: f64 = step.iter().zip(g.iter()).map(|(a, b)| a * b).sum();
        if dec <= 1e-15 * j.abs().max(1e-300) {
            return (th, j, true);
        }
        let mut t = 1.0;
        let mut moved = false;
        for _ in 0..50 {
            let cand: Vec<f64> = th.iter().zip(step.iter()).map(|(a, b)| a - t * b).collect();
            let (jc, gc, hc) = f(&cand);
            if jc.is_finite() && jc <= j - 1e-4 * t * dec {
                th = cand;
                j = jc;
                g = gc;
                h = hc;
                moved = true;
                break;
            }
            t *= 0.5;
        }
        if !moved {
            // no measurable decrease possible: at the minimiser up to rounding
            return (th, j, dec <= 1e-9 * j.abs().max(1e-300));
        }
    }
    (th, j, false)
}

// --------------------------------------------------------------------------- logistic oracles

/// objective, gradient and scales of the binary problem at (w, b)
struct ObjEval {
    j: f64,
    grad: Vec<f64>, // weights first, intercept last (when fitted)
    g_scale: f64,   // G = sum_i |x~_i|_inf + alpha |w|_inf
    l_bound: f64,   // upper bound of the largest Hessian eigenvalue
    zmax: f64,      // largest |logit| (binary) / logit spread (multi) / |eta| (GLM)
    jn: f64,        // magnitude of the summands of J (cancellation-aware)
}

fn binary_eval(x: &Array2<f64>, t: &[f64], alpha: f64, w: &[f64], b: f64, intercept: bool) -> ObjEval {
    let (n, p) = x.dim();
    let mut j = 0.0;
    let mut grad = vec![0.0; p + intercept as usize];
    let mut g_scale = 0.0;
    let mut l_bound = 0.0;
    let mut zmax: f64 = 0.0;
    for i in 0..n {
        let z: f64 = x.row(i).iter().zip(w).map(|(a, b)| a * b).sum::<f64>() + b;
        zmax = zmax.max(z.abs());
        j += log1pexp(-t[i] * z);
        let r = -t[i] * sigmoid(-t[i] * z);
        for k in 0..p {
            grad[k] += r * x[[i, k]];
        }
        if intercept {
            grad[p] += r;
        }
        let (m, s2) = row_norms(x, i, intercept);
        g_scale += m;
        l_bound += 0.25 * s2;
    }
    let ww: f64 = w.iter().map(|v| v * v).sum();
    j += 0.5 * alpha * ww;
    for k in 0..p {
        grad[k] += alpha * w[k];
    }
    g_scale += alpha * inf_norm(w);
    l_bound += alpha;
    ObjEval { j, grad, g_scale, l_bound, zmax, jn: j }
}

fn binary_hess(x: &Array2<f64>, t: &[f64], alpha: f64, th: &[f64], intercept: bool) -> (f64, Vec<f64>, Array2<f64>) {
    let (n, p) = x.dim();
    let d = p + intercept as usize;
    let b = if intercept { th[p] } else { 0.0 };
    let e = binary_eval(x, t, alpha, &th[..p], b, intercept);
    let mut h = Array2::<f64>::zeros((d, d));
    let mut xt = vec![0.0; d];
    for i in 0..n {
        for k in 0..p {
            xt[k] = x[[i, k]];
        }
        if intercept {
            xt[p] = 1.0;
        }
        let z: f64 = xt.iter().zip(th).map(|(a, b)| a * b).sum();
        let s = sigmoid(z);
        let wgt = s * (1.0 - s);
        for a in 0..d {
            for c in 0..d {
                h[[a, c]] += wgt * xt[a] * xt[c];
            }
        }
    }
    for k in 0..p {
        h[[k, k]] += alpha;
    }
    (e.j, e.grad, h)
}

/// softmax of one row (max-shifted)
fn softmax_row(z: &[f64]) -> Vec<f64> {
    let m = z.iter().cloned().fold(f64::NEG_INFINITY, f64::max);
    let e: Vec<f64> = z.iter().map(|v| (v - m).exp()).collect();
    let s: f64 = e.iter().sum();
    e.iter().map(|v| v / s).collect()
}

/// multinomial problem at (W: p x k row-major, b: k); `y[i]` is the column index of sample i
fn multi_eval(x: &Array2<f64>, y: &[usize], k: usize, alpha: f64, w: &[f64], b: &[f64], intercept: bool) -> ObjEval {
    let (n, p) = x.dim();
    let d = p + intercept as usize;
    let mut j = 0.0;
    let mut grad = vec![0.0; d * k];
    let mut g_scale = 0.0;
    let mut l_bound = 0.0;
    let mut zmax: f64 = 0.0;
    let mut z = vec![0.0; k];
    for i in 0..n {
        for c in 0..k {
            z[c] = b[c];
            for a in 0..p {
                z[c] += x[[i, a]] * w[a * k + c];
            }
        }
        let zm = z.iter().cloned().fold(f64::NEG_INFINITY, f64::max);
        let zl = z.iter().cloned().fold(f64::INFINITY, f64::min);
        zmax = zmax.max(zm - zl);
        let lse = zm + z.iter().map(|v| (v - zm).exp()).sum::<f64>().ln();
        j += lse - z[y[i]];
        for c in 0..k {
            let r = (z[c] - lse).exp() - if c == y[i] { 1.0 } else { 0.0 };
            for a in 0..p {
                grad[a * k + c] += r * x[[i, a]];
            }
            if intercept {
                grad[p * k + c] += r;
            }
        }
        let (m, s2) = row_norms(x, i, intercept);
        g_scale += m;
        l_bound += 0.5 * s2;
    }
    let ww: f64 = w.iter().map(|v| v * v).sum();
    j += 0.5 * alpha * ww;
    for a in 0..p * k {
        grad[a] += alpha * w[a];
    }
    g_scale += alpha * inf_norm(w);
    l_bound += alpha;
    ObjEval { j, grad, g_scale, l_bound, zmax, jn: j }
}

fn multi_hess(x: &Array2<f64>, y: &[usize], k: usize, alpha: f64, th: &[f64], intercept: bool) -> (f64, Vec<f64>, Array2<f64>) {
    let (n, p) = x.dim();
    let d = p + intercept as usize;
    let zero = vec![0.0; k];
    let b: &[f64] = if intercept { &th[p * k..] } else { &zero };
    let e = multi_eval(x, y, k, alpha, &th[..p * k], b, intercept);
    let mut h = Array2::<f64>::zeros((d * k, d * k));
    let mut xt = vec![0.0; d];
    let mut z = vec![0.0; k];
    for i in 0..n {
        for a in 0..p {
            xt[a] = x[[i, a]];
        }
        if intercept {
            xt[p] = 1.0;
        }
        for c in 0..k {
            z[c] = (0..d).map(|a| xt[a] * th[a * k + c]).sum();
        }
        let pr = softmax_row(&z);
        for a in 0..d {
            for a2 in 0..d {
                let xx = xt[a] * xt[a2];
                if xx == 0.0 {
                    continue;
                }
                for c in 0..k {
                    for c2 in 0..k {
                        let v = if c == c2 { pr[c] - pr[c] * pr[c2] } else { -pr[c] * pr[c2] };
                        h[[a * k + c, a2 * k + c2]] += xx * v;
                    }
                }
            }
        }
    }
    for a in 0..p * k {
        h[[a, a]] += alpha;
    }
    (e.j, e.grad, h)
}

// ---------------------------------------------------------------------------- Tweedie oracles

#[derive(Clone, Copy, PartialEq, Eq, Debug)]
enum Lk {
    Identity,
    Log,
    Logit,
}
impl Lk {
    fn h(self, eta: f64) -> f64 {
        match self {
            Lk::Identity => eta,
            Lk::Log => eta.exp(),
            Lk::Logit => sigmoid(eta),
        }
    }
    fn hp(self, eta: f64) -> f64 {
        match self {
            Lk::Identity => 1.0,
            Lk::Log => eta.exp(),
            Lk::Logit => {
                let s = sigmoid(eta);
                s * (1.0 - s)
            }
        }
    }
    fn to_linfa(self) -> Link {
        match self {
            Lk::Identity => Link::Identity,
            Lk::Log => Link::Log,
            Lk::Logit => Link::Logit,
        }
    }
    fn name(self) -> &'static str {
        match self {
            Lk::Identity => "identity",
            Lk::Log => "log",
            Lk::Logit => "logit",
        }
    }
}

/// textbook Tweedie unit deviance d_p(y, mu) and the magnitude of its summands
fn unit_deviance(p: f64, y: f64, mu: f64) -> (f64, f64) {
    if p == 0.0 {
        let d = (y - mu) * (y - mu);
        (d, d)
    } else if p == 1.0 {
        if y == 0.0 {
            (2.0 * mu, 2.0 * mu.abs())
        } else {
            let a = y * (y / mu).ln();
            (2.0 * (a - y + mu), 2.0 * (a.abs() + y.abs() + mu.abs()))
        }
    } else if p == 2.0 {
        let a = (mu / y).ln();
        let b = y / mu;
        (2.0 * (a + b - 1.0), 2.0 * (a.abs() + b.abs() + 1.0))
    } else {
        let a = y.max(0.0).powf(2.0 - p) / ((1.0 - p) * (2.0 - p));
        let b = y * mu.powf(1.0 - p) / (1.0 - p);
        let c = mu.powf(2.0 - p) / (2.0 - p);
        (2.0 * (a - b + c), 2.0 * (a.abs() + b.abs() + c.abs()))
    }
}

/// J = 1/2 (deviance + alpha |w|^2) at (w, b)
fn tweedie_eval(x: &Array2<f64>, y: &[f64], power: f64, lk: Lk, alpha: f64, w: &[f64], b: f64, intercept: bool) -> ObjEval {
    let (n, p) = x.dim();
    let mut j = 0.0;
    let mut jn = 0.0;
    let mut grad = vec![0.0; p + intercept as usize];
    let mut g_scale = 0.0;
    let mut l_bound = 0.0;
    let mut zmax: f64 = 0.0;
    // d/d eta of the half unit deviance
    let s_of = |eta: f64, yi: f64| -> f64 {
        let mu = lk.h(eta);
        -(yi - mu) * mu.powf(-power) * lk.hp(eta)
    };
    for i in 0..n {
        let eta: f64 = x.row(i).iter().zip(w).map(|(a, b)| a * b).sum::<f64>() + b;
        zmax = zmax.max(eta.abs());
        let mu = lk.h(eta);
        let (d, dn) = unit_deviance(power, y[i], mu);
        j += 0.5 * d;
        jn += 0.5 * dn;
        let sgrad = s_of(eta, y[i]);
        for k in 0..p {
            grad[k] += sgrad * x[[i, k]];
        }
        if intercept {
            grad[p] += sgrad;
        }
        let (m, s2) = row_norms(x, i, intercept);
        g_scale += (y[i].abs() + mu.abs()) * mu.powf(-power) * lk.hp(eta).abs() * m;
        let de = 1e-5 * (1.0 + eta.abs());
        let kappa = ((s_of(eta + de, y[i]) - s_of(eta - de, y[i])) / (2.0 * de)).abs();
        l_bound += kappa * s2;
    }
    let ww: f64 = w.iter().map(|v| v * v).sum();
    j += 0.5 * alpha * ww;
    jn += 0.5 * alpha * ww;
    for k in 0..p {
        grad[k] += alpha * w[k];
    }
    g_scale += alpha * inf_norm(w);
    l_bound += alpha;
    ObjEval { j, grad, g_scale, l_bound, zmax, jn }
}

/// verdict numbers of a stationarity check
struct GradJudge {
    g_inf: f64,
    thr: f64,
    floor_sum: f64,
    floor_stall: f64,
}
/// stated-tolerance criterion:
/// |grad|_inf <= 10*tol + 64*eps_F*G + max(c*sqrt(eps_F*Jn*L), rho*G), c = 64 (f64) / 16 (f32), rho = 1e-4 / 1e-3
/// (solver tolerance; rounding of the gradient sum in F; gradient left when the cost cannot
///  decrease measurably in F any more — L-BFGS then stops on its cost criterion)
fn judge_grad(e: &ObjEval, tol: f64, fl: Fl) -> GradJudge {
    let g_inf = inf_norm(&e.grad);
    let floor_sum = 64.0 * fl.eps() * e.g_scale;
    // measured on the clean tree: the remaining gradient is <= 1.3*sqrt(eps_F*Jn*L) in both types;
    // f32 cannot afford the same head-room without swallowing real gradient errors
    let c_stall = if fl == Fl::F64 { 64.0 } else { 16.0 };
    let floor_stall = c_stall * (fl.eps() * e.jn.abs() * e.l_bound).sqrt();
    // DESIGN §3: L-BFGS may also stop on its cost criterion after a very short step on an
    // ill-conditioned problem (near-separable data, tiny alpha); measured <= 3e-6*G (f64) on the
    // clean tree while a gradient bug typically leaves >= 1e-2*G
    let floor_rel = if fl == Fl::F64 { 1e-4 } else { 1e-3 } * e.g_scale;
    let floor_stall = floor_stall.max(floor_rel);
    GradJudge { g_inf, thr: 10.0 * tol + floor_sum + floor_stall, floor_sum, floor_stall }
}

// ------------------------------------------------------------------------ linfa call wrappers

#[derive(Clone, Debug)]
struct LogCfg {
    alpha: f64,
    intercept: bool,
    tol: Option<f64>,
    max_iter: u64,
    /// (p + intercept) x k   (k = 1 for the binary model)
    init: Option<Array2<f64>>,
}
impl LogCfg {
    fn tol_eff(&self) -> f64 {
        self.tol.unwrap_or(1e-4)
    }
    fn describe(&self) -> String {
        format!(
            "a={} ic={} tol={:?} init={}",
            self.alpha,
            self.intercept,
            self.tol,
            self.init.is_some()
        )
    }
}

enum BinModel<C: PartialOrd + Clone> {
    F64(FittedLogisticRegression<f64, C>),
    F32(FittedLogisticRegression<f32, C>),
}
enum MultiModel<C: PartialOrd + Clone> {
    F64(MultiFittedLogisticRegression<f64, C>),
    F32(MultiFittedLogisticRegression<f32, C>),
}

/// run `$body` with `$view` bound to an `ArrayView2<$F>` of `$x` in the requested memory layout
macro_rules! with_view {
    ($F:ty, $x:expr, $layout:expr, |$view:ident| $body:expr) => {{
        let xf: Array2<$F> = $x.mapv(|v| v as $F);
        let (n, p) = xf.dim();
        match $layout {
            Layout::C => {
                let $view: ArrayView2<$F> = xf.view();
                $body
            }
            Layout::F => {
                let mut st = Array2::<$F>::zeros((p, n));
                st.assign(&xf.t());
                let $view: ArrayView2<$F> = st.t();
                $body
            }
            Layout::Strided => {
                let mut st = Array2::<$F>::from_elem((2 * n + 1, p + 2), 7.25 as $F);
                st.slice_mut(s![1..;2, 1..p + 1]).assign(&xf);
                let $view: ArrayView2<$F> = st.slice(s![1..;2, 1..p + 1]);
                $body
            }
            Layout::RowsReversed => {
                let st = Array2::<$F>::from_shape_fn((n, p), |(i, j)| xf[[n - 1 - i, j]]);
                let $view: ArrayView2<$F> = st.slice(s![..;-1, ..]);
                $body
            }
        }
    }};
}

macro_rules! fit_impls {
    ($binname:ident, $multiname:ident, $F:ty, $variant:ident) => {
        fn $binname<C: Ord + Clone>(
            x: &Array2<f64>,
            y: &Array1<C>,
            cfg: &LogCfg,
            layout: Layout,
        ) -> Result<Result<BinModel<C>, String>, String> {
            let mut params = LogisticRegression::<$F>::default()
                .alpha(cfg.alpha as $F)
                .with_intercept(cfg.intercept)
                .max_iterations(cfg.max_iter);
            if let Some(t) = cfg.tol {
                params = params.gradient_tolerance(t as $F);
            }
            if let Some(init) = &cfg.init {
                params = params.initial_params(init.column(0).mapv(|v| v as $F));
            }
            with_view!($F, x, layout, |view| {
                let ds = DatasetBase::new(view, y.view());
                guarded(|| params.fit(&ds).map(BinModel::$variant).map_err(|e| e.to_string()))
            })
        }
        fn $multiname<C: Ord + Clone>(
            x: &Array2<f64>,
            y: &Array1<C>,
            cfg: &LogCfg,
            layout: Layout,
        ) -> Result<Result<MultiModel<C>, String>, String> {
            let mut params = MultiLogisticRegression::<$F>::default()
                .alpha(cfg.alpha as $F)
                .with_intercept(cfg.intercept)
                .max_iterations(cfg.max_iter);
            if let Some(t) = cfg.tol {
                params = params.gradient_tolerance(t as $F);
            }
            if let Some(init) = &cfg.init {
                params = params.initial_params(init.mapv(|v| v as $F));
            }
            with_view!($F, x, layout, |view| {
                let ds = DatasetBase::new(view, y.view());
                guarded(|| params.fit(&ds).map(MultiModel::$variant).map_err(|e| e.to_string()))
            })
        }
    };
}
fit_impls!(bin_fit_f64, multi_fit_f64, f64, F64);
fit_impls!(bin_fit_f32, multi_fit_f32, f32, F32);

fn bin_fit_direct<C: Ord + Clone>(
    fl: Fl,
    x: &Array2<f64>,
    y: &Array1<C>,
    cfg: &LogCfg,
    layout: Layout,
) -> Result<Result<BinModel<C>, String>, String> {
    match fl {
        Fl::F64 => bin_fit_f64(x, y, cfg, layout),
        Fl::F32 => bin_fit_f32(x, y, cfg, layout),
    }
}
fn multi_fit_direct<C: Ord + Clone>(
    fl: Fl,
    x: &Array2<f64>,
    y: &Array1<C>,
    cfg: &LogCfg,
    layout: Layout,
) -> Result<Result<MultiModel<C>, String>, String> {
    match fl {
        Fl::F64 => multi_fit_f64(x, y, cfg, layout),
        Fl::F32 => multi_fit_f32(x, y, cfg, layout),
    }
}

impl<C: Label> BinModel<C> {
    fn w(&self) -> Vec<f64> {
        match self {
            BinModel::F64(m) => m.params().to_vec(),
            BinModel::F32(m) => m.params().iter().map(|v| *v as f64).collect(),
        }
    }
    fn b(&self) -> f64 {
        match self {
            BinModel::F64(m) => m.intercept(),
            BinModel::F32(m) => m.intercept() as f64,
        }
    }
    /// (pos class, neg class, pos label, neg label)
    fn labels(&self) -> (C, C, f64, f64) {
        match self {
            BinModel::F64(m) => {
                let l = m.labels();
                (l.pos.class.clone(), l.neg.class.clone(), l.pos.label, l.neg.label)
            }
            BinModel::F32(m) => {
                let l = m.labels();
                (l.pos.class.clone(), l.neg.class.clone(), l.pos.label as f64, l.neg.label as f64)
            }
        }
    }
    fn probs(&self, x: &Array2<f64>, layout: Layout) -> Result<Vec<f64>, String> {
        match self {
            BinModel::F64(m) => with_view!(f64, x, layout, |v| guarded(|| m.predict_probabilities(&v).to_vec())),
            BinModel::F32(m) => with_view!(f32, x, layout, |v| guarded(|| m
                .predict_probabilities(&v)
                .iter()
                .map(|p| *p as f64)
                .collect())),
        }
    }
    fn predict(&self, x: &Array2<f64>, layout: Layout) -> Result<Vec<C>, String> {
        match self {
            BinModel::F64(m) => with_view!(f64, x, layout, |v| guarded(|| m.predict(&v).to_vec())),
            BinModel::F32(m) => with_view!(f32, x, layout, |v| guarded(|| m.predict(&v).to_vec())),
        }
    }
    fn set_threshold(self, t: f64) -> Result<Self, String> {
        guarded(move || match self {
            BinModel::F64(m) => BinModel::F64(m.set_threshold(t)),
            BinModel::F32(m) => BinModel::F32(m.set_threshold(t as f32)),
        })
    }
}

impl<C: Label> MultiModel<C> {
    /// (W row-major p x k, p, k)
    fn w(&self) -> (Vec<f64>, usize, usize) {
        match self {
            MultiModel::F64(m) => {
                let a = m.params();
                (a.iter().cloned().collect(), a.nrows(), a.ncols())
            }
            MultiModel::F32(m) => {
                let a = m.params();
                (a.iter().map(|v| *v as f64).collect(), a.nrows(), a.ncols())
            }
        }
    }
    fn b(&self) -> Vec<f64> {
        match self {
            MultiModel::F64(m) => m.intercept().to_vec(),
            MultiModel::F32(m) => m.intercept().iter().map(|v| *v as f64).collect(),
        }
    }
    fn classes(&self) -> Vec<C> {
        match self {
            MultiModel::F64(m) => m.classes().to_vec(),
            MultiModel::F32(m) => m.classes().to_vec(),
        }
    }
    /// probabilities, row-major, with the column count
    fn probs(&self, x: &Array2<f64>, layout: Layout) -> Result<(Vec<f64>, usize, usize), String> {
        match self {
            MultiModel::F64(m) => with_view!(f64, x, layout, |v| guarded(|| {
                let a = m.predict_probabilities(&v);
                (a.iter().cloned().collect(), a.nrows(), a.ncols())
            })),
            MultiModel::F32(m) => with_view!(f32, x, layout, |v| guarded(|| {
                let a = m.predict_probabilities(&v);
                (a.iter().map(|p| *p as f64).collect(), a.nrows(), a.ncols())
            })),
        }
    }
    fn predict(&self, x: &Array2<f64>, layout: Layout) -> Result<Vec<C>, String> {
        match self {
            MultiModel::F64(m) => with_view!(f64, x, layout, |v| guarded(|| m.predict(&v).to_vec())),
            MultiModel::F32(m) => with_view!(f32, x, layout, |v| guarded(|| m.predict(&v).to_vec())),
        }
    }
}

#[derive(Clone, Debug)]
struct GlmCfg {
    power: f64,
    link: Option<Lk>,
    alpha: f64,
    intercept: bool,
    tol: Option<f64>,
    max_iter: usize,
}
impl GlmCfg {
    /// documented default: identity for power <= 0, log otherwise
    fn link_eff(&self) -> Lk {
        self.link.unwrap_or(if self.power <= 0.0 { Lk::Identity } else { Lk::Log })
    }
    fn tol_eff(&self) -> f64 {
        self.tol.unwrap_or(1e-4)
    }
}

enum GlmModel {
    F64(TweedieRegressor<f64>),
    F32(TweedieRegressor<f32>),
}
/// Err(kind, message): kind = "range" for InvalidTargetRange, "other" otherwise
type GlmFit = Result<Result<GlmModel, (String, String)>, String>;

macro_rules! glm_impl {
    ($name:ident, $F:ty, $variant:ident) => {
        fn $name(x: &Array2<f64>, y: &[f64], cfg: &GlmCfg, layout: Layout) -> GlmFit {
            let mut params = TweedieRegressor::<$F>::params()
                .alpha(cfg.alpha as $F)
                .power(cfg.power as $F)
                .fit_intercept(cfg.intercept)
                .max_iter(cfg.max_iter);
            if let Some(l) = cfg.link {
                params = params.link(l.to_linfa());
            }
            if let Some(t) = cfg.tol {
                params = params.tol(t as $F);
            }
            let yf: Array1<$F> = y.iter().map(|v| *v as $F).collect();
            with_view!($F, x, layout, |view| {
                let ds = DatasetBase::new(view, yf.view());
                guarded(|| {
                    params.fit(&ds).map(GlmModel::$variant).map_err(|e| {
                        let kind = match &e {
                            linfa_linear::LinearError::InvalidTargetRange(_) => "range",
                            _ => "other",
                        };
                        (kind.to_string(), e.to_string())
                    })
                })
            })
        }
    };
}
glm_impl!(glm_fit_f64, f64, F64);
glm_impl!(glm_fit_f32, f32, F32);
fn glm_fit_direct(fl: Fl, x: &Array2<f64>, y: &[f64], cfg: &GlmCfg, layout: Layout) -> GlmFit {
    match fl {
        Fl::F64 => glm_fit_f64(x, y, cfg, layout),
        Fl::F32 => glm_fit_f32(x, y, cfg, layout),
    }
}
impl GlmModel {
    fn w(&self) -> Vec<f64> {
        match self {
            GlmModel::F64(m) => m.coef.to_vec(),
            GlmModel::F32(m) => m.coef.iter().map(|v| *v as f64).collect(),
        }
    }
    fn b(&self) -> f64 {
        match self {
            GlmModel::F64(m) => m.intercept,
            GlmModel::F32(m) => m.intercept as f64,
        }
    }
    fn predict(&self, x: &Array2<f64>, layout: Layout) -> Result<Vec<f64>, String> {
        match self {
            GlmModel::F64(m) => with_view!(f64, x, layout, |v| guarded(|| m.predict(&v).to_vec())),
            GlmModel::F32(m) => with_view!(f32, x, layout, |v| guarded(|| m
                .predict(&v)
                .iter()
                .map(|p| *p as f64)
                .collect())),
        }
    }
}

// ------------------------------------------------------- process isolation of the fit calls
//
// argmin's More-Thuente line search has no evaluation cap: a cost/gradient pair that is
// inconsistent or not finite makes `fit` spin forever. A fit that does not return cannot be
// judged by values, so every fit runs in a worker process (this binary, C12_WORKER=1) that the
// monitor can kill; the watchdog only ever produces `inconclusive`.

/// label types the monitors use (must travel to the worker and back)
trait Label: Ord + Clone + Default + Debug + serde::Serialize + serde::de::DeserializeOwned {}
impl<T: Ord + Clone + Default + Debug + serde::Serialize + serde::de::DeserializeOwned> Label for T {}

/// how the label values are produced from class indices: type id + naming
#[derive(Clone, Debug, serde::Serialize, serde::Deserialize)]
struct NameSpec {
    lt: u32,
    swap: bool,
    perm: Vec<usize>,
}

#[derive(Clone, serde::Serialize, serde::Deserialize)]
struct FitReq {
    kind: u8, // 0 binary, 1 multinomial, 2 Tweedie
    f32_: bool,
    layout: u8,
    n: usize,
    p: usize,
    x: Vec<f64>,
    ycls: Vec<usize>,
    names: NameSpec,
    yreal: Vec<f64>,
    alpha: f64,
    intercept: bool,
    tol: Option<f64>,
    max_iter: u64,
    init: Option<(Vec<f64>, usize, usize)>,
    power: f64,
    link: Option<u8>,
}
#[derive(serde::Serialize, serde::Deserialize)]
enum FitResp {
    Model(Vec<u8>),
    Err(String, String),
    Panic(String),
}
/// error texts of the hyperparameter guard: none of them may come back for the configurations this
/// monitor generates (alpha >= 0, positive tolerance, finite initial parameters of the right shape)
fn is_config_rejection(e: &str) -> bool {
    ["alpha must be", "gradient_tolerance must be", "Initial parameters must be finite", "Rows of initial parameter", "Columns of initial parameter"]
        .iter()
        .any(|t| e.contains(t))
}

enum FitOut<M> {
    Ok(M),
    Err(String, String),
    Panic(String),
    Hang,
}

fn layout_code(l: Layout) -> u8 {
    match l {
        Layout::C => 0,
        Layout::F => 1,
        Layout::Strided => 2,
        Layout::RowsReversed => 3,
    }
}
fn layout_from(c: u8) -> Layout {
    match c {
        1 => Layout::F,
        2 => Layout::Strided,
        3 => Layout::RowsReversed,
        _ => Layout::C,
    }
}
fn link_code(l: Lk) -> u8 {
    match l {
        Lk::Identity => 0,
        Lk::Log => 1,
        Lk::Logit => 2,
    }
}
fn link_from(c: u8) -> Lk {
    match c {
        0 => Lk::Identity,
        1 => Lk::Log,
        _ => Lk::Logit,
    }
}

impl<C: Label> BinModel<C> {
    fn to_bytes(&self) -> Vec<u8> {
        match self {
            BinModel::F64(m) => bincode::serialize(m).unwrap(),
            BinModel::F32(m) => bincode::serialize(m).unwrap(),
        }
    }
    fn from_bytes(fl: Fl, b: &[u8]) -> Option<Self> {
        match fl {
            Fl::F64 => bincode::deserialize(b).ok().map(BinModel::F64),
            Fl::F32 => bincode::deserialize(b).ok().map(BinModel::F32),
        }
    }
}
impl<C: Label> MultiModel<C> {
    fn to_bytes(&self) -> Vec<u8> {
        match self {
            MultiModel::F64(m) => bincode::serialize(m).unwrap(),
            MultiModel::F32(m) => bincode::serialize(m).unwrap(),
        }
    }
    fn from_bytes(fl: Fl, b: &[u8]) -> Option<Self> {
        match fl {
            Fl::F64 => bincode::deserialize(b).ok().map(MultiModel::F64),
            Fl::F32 => bincode::deserialize(b).ok().map(MultiModel::F32),
        }
    }
}
impl GlmModel {
    fn to_bytes(&self) -> Vec<u8> {
        match self {
            GlmModel::F64(m) => bincode::serialize(m).unwrap(),
            GlmModel::F32(m) => bincode::serialize(m).unwrap(),
        }
    }
    fn from_bytes(fl: Fl, b: &[u8]) -> Option<Self> {
        match fl {
            Fl::F64 => bincode::deserialize(b).ok().map(GlmModel::F64),
            Fl::F32 => bincode::deserialize(b).ok().map(GlmModel::F32),
        }
    }
}

const N_BIN_LTYPES: u32 = 5;
/// instantiate `$body` with `$names: [C; 2]` for the label type `$lt`; `$swap` exchanges the names
macro_rules! with_binary_names {
    ($lt:expr, $swap:expr, |$names:ident| $body:expr) => {
        match $lt {
            0 => {
                let $names: [bool; 2] = if $swap { [true, false] } else { [false, true] };
                $body
            }
            1 => {
                let $names: [usize; 2] = if $swap { [17, 3] } else { [3, 17] };
                $body
            }
            2 => {
                let $names: [String; 2] = if $swap { ["dog".to_string(), "cat".to_string()] } else { ["cat".to_string(), "dog".to_string()] };
                $body
            }
            3 => {
                let $names: [i64; 2] = if $swap { [1, -1] } else { [-1, 1] };
                $body
            }
            _ => {
                let $names: [char; 2] = if $swap { ['a', 'z'] } else { ['z', 'a'] };
                $body
            }
        }
    };
}
fn ltype_name(lt: u32) -> &'static str {
    ["bool", "usize", "String", "i64", "char"][lt as usize]
}

const N_MULTI_LTYPES: u32 = 3;
macro_rules! with_multi_names {
    ($lt:expr, $perm:expr, |$names:ident| $body:expr) => {
        match $lt {
            0 => {
                let base: [usize; 6] = [10, 3, 7, 42, 0, 5];
                let $names: Vec<usize> = $perm.iter().map(|i| base[*i]).collect();
                $body
            }
            1 => {
                let base = ["kiwi", "apple", "fig", "Plum", "", "zucchini"];
                let $names: Vec<String> = $perm.iter().map(|i| base[*i].to_string()).collect();
                $body
            }
            _ => {
                let base: [i64; 6] = [-3, 0, 9, -100, 1, 2];
                let $names: Vec<i64> = $perm.iter().map(|i| base[*i]).collect();
                $body
            }
        }
    };
}

/// executed in the worker (or in-process with C12_INPROCESS=1)
fn handle_fit(req: &FitReq) -> FitResp {
    let fl = if req.f32_ { Fl::F32 } else { Fl::F64 };
    let layout = layout_from(req.layout);
    let x = match Array2::from_shape_vec((req.n, req.p), req.x.clone()) {
        Ok(a) => a,
        Err(e) => return FitResp::Panic(format!("harness: bad request {e}")),
    };
    let lcfg = LogCfg {
        alpha: req.alpha,
        intercept: req.intercept,
        tol: req.tol,
        max_iter: req.max_iter,
        init: req.init.as_ref().map(|(v, r, c)| Array2::from_shape_vec((*r, *c), v.clone()).unwrap()),
    };
    match req.kind {
        0 => with_binary_names!(req.names.lt, req.names.swap, |names| {
            let y: Array1<_> = req.ycls.iter().map(|i| names[*i].clone()).collect();
            match bin_fit_direct(fl, &x, &y, &lcfg, layout) {
                Err(p) => FitResp::Panic(p),
                Ok(Err(e)) => FitResp::Err("other".into(), e),
                Ok(Ok(m)) => FitResp::Model(m.to_bytes()),
            }
        }),
        1 => with_multi_names!(req.names.lt, req.names.perm, |names| {
            let y: Array1<_> = req.ycls.iter().map(|i| names[*i].clone()).collect();
            match multi_fit_direct(fl, &x, &y, &lcfg, layout) {
                Err(p) => FitResp::Panic(p),
                Ok(Err(e)) => FitResp::Err("other".into(), e),
                Ok(Ok(m)) => FitResp::Model(m.to_bytes()),
            }
        }),
        _ => {
            let cfg = GlmCfg {
                power: req.power,
                link: req.link.map(link_from),
                alpha: req.alpha,
                intercept: req.intercept,
                tol: req.tol,
                max_iter: req.max_iter as usize,
            };
            match glm_fit_direct(fl, &x, &req.yreal, &cfg, layout) {
                Err(p) => FitResp::Panic(p),
                Ok(Err((k, e))) => FitResp::Err(k, e),
                Ok(Ok(m)) => FitResp::Model(m.to_bytes()),
            }
        }
    }
}

fn read_frame(r: &mut impl std::io::Read) -> Option<Vec<u8>> {
    let mut len = [0u8; 4];
    r.read_exact(&mut len).ok()?;
    let n = u32::from_le_bytes(len) as usize;
    let mut buf = vec![0u8; n];
    r.read_exact(&mut buf).ok()?;
    Some(buf)
}
fn write_frame(w: &mut impl std::io::Write, b: &[u8]) -> bool {
    w.write_all(&(b.len() as u32).to_le_bytes()).is_ok() && w.write_all(b).is_ok() && w.flush().is_ok()
}

/// worker process: answer fit requests until stdin closes
fn worker_main() -> ! {
    let stdin = std::io::stdin();
    let stdout = std::io::stdout();
    let mut inp = stdin.lock();
    let mut out = stdout.lock();
    while let Some(buf) = read_frame(&mut inp) {
        let resp = match bincode::deserialize::<FitReq>(&buf) {
            Ok(req) => handle_fit(&req),
            Err(e) => FitResp::Panic(format!("harness: request does not decode: {e}")),
        };
        if !write_frame(&mut out, &bincode::serialize(&resp).unwrap()) {
            break;
        }
    }
    std::process::exit(0)
}

struct Worker {
    child: std::process::Child,
    stdin: std::process::ChildStdin,
    rx: std::sync::mpsc::Receiver<Vec<u8>>,
}
impl Drop for Worker {
    fn drop(&mut self) {
        let _ = self.child.kill();
        let _ = self.child.wait();
    }
}
fn spawn_worker() -> Option<Worker> {
    use std::process::{Command, Stdio};
    let exe = std::env::current_exe().ok()?;
    let mut child = Command::new(exe)
        .arg("C12")
        .arg("quick")
        .env("C12_WORKER", "1")
        .env("VERIF_THREADS", "1")
        .stdin(Stdio::piped())
        .stdout(Stdio::piped())
        .stderr(Stdio::null())
        .spawn()
        .ok()?;
    let stdin = child.stdin.take()?;
    let mut stdout = child.stdout.take()?;
    let (tx, rx) = std::sync::mpsc::channel();
    std::thread::spawn(move || {
        while let Some(f) = read_frame(&mut stdout) {
            if tx.send(f).is_err() {
                break;
            }
        }
    });
    Some(Worker { child, stdin, rx })
}
thread_local! {
    static WORKER: std::cell::RefCell<Option<Worker>> = std::cell::RefCell::new(None);
}
static HANGS: std::sync::atomic::AtomicUsize = std::sync::atomic::AtomicUsize::new(0);
/// watchdog per fit: 30 s (a fit normally takes milliseconds); once several fits of this run have
/// hung the tree evidently has a non-terminating solver path and the limit drops to 8 s so the run
/// still finishes. Only ever yields `inconclusive`.
fn fit_timeout() -> std::time::Duration {
    let dflt = if HANGS.load(std::sync::atomic::Ordering::Relaxed) >= 6 { 8.0 } else { 30.0 };
    let s: f64 = std::env::var("C12_FIT_TIMEOUT_S").ok().and_then(|s| s.parse().ok()).unwrap_or(dflt);
    std::time::Duration::from_secs_f64(s)
}

enum Remote {
    Resp(FitResp),
    Hang,
}
fn remote_fit(req: &FitReq) -> Remote {
    if std::env::var("C12_INPROCESS").is_ok() {
        return Remote::Resp(handle_fit(req));
    }
    let bytes = bincode::serialize(req).unwrap();
    WORKER.with(|w| {
        let mut w = w.borrow_mut();
        for _attempt in 0..2 {
            if w.is_none() {
                *w = spawn_worker();
            }
            let Some(wk) = w.as_mut() else {
                return Remote::Resp(FitResp::Panic("harness: cannot spawn the worker process".into()));
            };
            if !write_frame(&mut wk.stdin, &bytes) {
                *w = None; // worker gone (killed earlier / crashed while idle): start a new one
                continue;
            }
            return match wk.rx.recv_timeout(fit_timeout()) {
                Ok(buf) => match bincode::deserialize::<FitResp>(&buf) {
                    Ok(r) => Remote::Resp(r),
                    Err(e) => Remote::Resp(FitResp::Panic(format!("harness: response does not decode: {e}"))),
                },
                Err(std::sync::mpsc::RecvTimeoutError::Timeout) => {
                    *w = None; // Drop kills the spinning process
                    HANGS.fetch_add(1, std::sync::atomic::Ordering::Relaxed);
                    Remote::Hang
                }
                Err(std::sync::mpsc::RecvTimeoutError::Disconnected) => {
                    let status = wk.child.wait().map(|s| s.to_string()).unwrap_or_default();
                    *w = None;
                    Remote::Resp(FitResp::Panic(format!("linfa_panic: worker process died during fit ({status})")))
                }
            };
        }
        Remote::Resp(FitResp::Panic("harness: worker process unusable".into()))
    })
}

fn log_req(kind: u8, fl: Fl, x: &Array2<f64>, ycls: &[usize], ns: &NameSpec, cfg: &LogCfg, layout: Layout) -> FitReq {
    FitReq {
        kind,
        f32_: fl == Fl::F32,
        layout: layout_code(layout),
        n: x.nrows(),
        p: x.ncols(),
        x: x.iter().cloned().collect(),
        ycls: ycls.to_vec(),
        names: ns.clone(),
        yreal: vec![],
        alpha: cfg.alpha,
        intercept: cfg.intercept,
        tol: cfg.tol,
        max_iter: cfg.max_iter,
        init: cfg.init.as_ref().map(|a| (a.iter().cloned().collect(), a.nrows(), a.ncols())),
        power: 0.0,
        link: None,
    }
}

fn decode<M>(r: Remote, from: impl Fn(&[u8]) -> Option<M>) -> FitOut<M> {
    match r {
        Remote::Hang => FitOut::Hang,
        Remote::Resp(FitResp::Panic(p)) => FitOut::Panic(p),
        Remote::Resp(FitResp::Err(k, e)) => FitOut::Err(k, e),
        Remote::Resp(FitResp::Model(b)) => match from(&b) {
            Some(m) => FitOut::Ok(m),
            None => FitOut::Panic("harness: model does not decode".into()),
        },
    }
}

/// `C` must be the type `with_binary_names!(ns.lt, ..)` produces
fn bin_fit<C: Label>(fl: Fl, x: &Array2<f64>, ycls: &[usize], ns: &NameSpec, cfg: &LogCfg, layout: Layout) -> FitOut<BinModel<C>> {
    decode(remote_fit(&log_req(0, fl, x, ycls, ns, cfg, layout)), |b| BinModel::from_bytes(fl, b))
}
fn multi_fit<C: Label>(fl: Fl, x: &Array2<f64>, ycls: &[usize], ns: &NameSpec, cfg: &LogCfg, layout: Layout) -> FitOut<MultiModel<C>> {
    decode(remote_fit(&log_req(1, fl, x, ycls, ns, cfg, layout)), |b| MultiModel::from_bytes(fl, b))
}
/// same, the label type given by a witness value
fn bin_fit_like<C: Label>(_w: &C, fl: Fl, x: &Array2<f64>, ycls: &[usize], ns: &NameSpec, cfg: &LogCfg, layout: Layout) -> FitOut<BinModel<C>> {
    bin_fit(fl, x, ycls, ns, cfg, layout)
}
fn multi_fit_like<C: Label>(_w: &C, fl: Fl, x: &Array2<f64>, ycls: &[usize], ns: &NameSpec, cfg: &LogCfg, layout: Layout) -> FitOut<MultiModel<C>> {
    multi_fit(fl, x, ycls, ns, cfg, layout)
}
fn glm_fit(fl: Fl, x: &Array2<f64>, y: &[f64], cfg: &GlmCfg, layout: Layout) -> FitOut<GlmModel> {
    let req = FitReq {
        kind: 2,
        f32_: fl == Fl::F32,
        layout: layout_code(layout),
        n: x.nrows(),
        p: x.ncols(),
        x: x.iter().cloned().collect(),
        ycls: vec![],
        names: NameSpec { lt: 0, swap: false, perm: vec![] },
        yreal: y.to_vec(),
        alpha: cfg.alpha,
        intercept: cfg.intercept,
        tol: cfg.tol,
        max_iter: cfg.max_iter as u64,
        init: None,
        power: cfg.power,
        link: cfg.link.map(link_code),
    };
    decode(remote_fit(&req), |b| GlmModel::from_bytes(fl, b))
}

const HANG_REASON: &str = "watchdog: fit did not return (process killed); a run that does not finish decides nothing";

// -------------------------------------------------------------------------------- workloads

struct Feat {
    x: Array2<f64>,
    scale: Vec<f64>,
    offset: Vec<f64>,
}

const N_MODES: u32 = 6;
fn mode_name(m: u32) -> &'static str {
    ["unit", "mixed-scales", "offsets", "const+dup-cols", "heavy-tails", "integer-ties"][m as usize]
}

/// feature matrix, already rounded to the element type the model will be fitted in
fn gen_features(rng: &mut Rng, n: usize, p: usize, mode: u32, fl: Fl) -> Feat {
    let mut scale = vec![1.0; p];
    let mut offset = vec![0.0; p];
    let mut x = Array2::<f64>::zeros((n, p));
    match mode {
        1 => {
            for j in 0..p {
                scale[j] = log_uniform(rng, 1e-2, 1e3);
            }
        }
        2 => {
            for j in 0..p {
                scale[j] = log_uniform(rng, 0.1, 10.0);
                offset[j] = uniform(rng, -20.0, 20.0) * scale[j];
            }
        }
        _ => {}
    }
    for i in 0..n {
        for j in 0..p {
            let v = match mode {
                4 => normal(rng) / uniform(rng, 0.02, 1.0).sqrt(),
                5 => (normal(rng) * 1.5).round(),
                _ => normal(rng),
            };
            x[[i, j]] = offset[j] + scale[j] * v;
        }
    }
    if mode == 3 {
        // last column constant, and (p >= 3) column 1 duplicates column 0
        let cst = *pick(rng, &[1.0, -2.5, 0.0]);
        for i in 0..n {
            x[[i, p - 1]] = cst;
            if p >= 3 {
                x[[i, 1]] = x[[i, 0]];
            }
        }
        offset[p - 1] = cst;
    }
    if mode == 5 {
        // exact duplicate rows
        for i in (1..n).step_by(3) {
            let src = x.row(i - 1).to_owned();
            x.row_mut(i).assign(&src);
        }
    }
    Feat { x: fl.round_arr(&x), scale, offset }
}

/// standardised linear predictors z = ((x - offset)/scale) U + b0, for k outputs
fn latent(rng: &mut Rng, f: &Feat, k: usize, strength: f64) -> Array2<f64> {
    let (n, p) = f.x.dim();
    let u = Array2::from_shape_fn((p, k), |_| normal(rng) * strength / (p as f64).sqrt());
    let b0: Vec<f64> = (0..k).map(|_| normal(rng)).collect();
    let mut z = Array2::<f64>::zeros((n, k));
    for i in 0..n {
        for c in 0..k {
            let mut s = b0[c];
            for j in 0..p {
                s += (f.x[[i, j]] - f.offset[j]) / f.scale[j] * u[[j, c]];
            }
            z[[i, c]] = s;
        }
    }
    z
}

/// binary labels (0/1) drawn from a logistic model; `shift` moves the class balance
fn gen_binary_labels(rng: &mut Rng, f: &Feat, strength: f64, shift: f64) -> Vec<usize> {
    let z = latent(rng, f, 1, strength);
    let n = z.nrows();
    let mut y: Vec<usize> = (0..n).map(|i| (rng.gen::<f64>() < sigmoid(z[[i, 0]] + shift)) as usize).collect();
    if y.iter().all(|v| *v == y[0]) {
        let i = rng.gen_range(0..n);
        y[i] = 1 - y[i];
    }
    y
}

/// labels in 0..k drawn from a softmax model; at least two classes present
fn gen_multi_labels(rng: &mut Rng, f: &Feat, k: usize, strength: f64) -> Vec<usize> {
    let z = latent(rng, f, k, strength);
    let n = z.nrows();
    let mut y = Vec::with_capacity(n);
    for i in 0..n {
        let pr = softmax_row(&z.row(i).to_vec());
        let u: f64 = rng.gen();
        let mut acc = 0.0;
        let mut cls = k - 1;
        for c in 0..k {
            acc += pr[c];
            if u < acc {
                cls = c;
                break;
            }
        }
        y.push(cls);
    }
    if y.iter().all(|v| *v == y[0]) {
        let i = rng.gen_range(0..n);
        y[i] = (y[i] + 1) % k;
    }
    y
}

fn pick_alpha(rng: &mut Rng) -> f64 {
    // all exactly representable in f32
    *pick(rng, &[0.0, 0.0, 0.0009765625, 0.5, 1.0, 5.0, 100.0])
}
fn pick_tol(rng: &mut Rng, fl: Fl) -> Option<f64> {
    match fl {
        Fl::F64 => *pick(rng, &[None, Some(1e-6), Some(1e-8), Some(1e-3)]),
        Fl::F32 => *pick(rng, &[None, Some(1e-3), Some(1e-2)]),
    }
}

// ------------------------------------------------------------------------- binary monitor

struct BinReport<C: Label> {
    model: BinModel<C>,
    pos_is_name0: bool,
    probs_train: Vec<f64>,
    nontrivial: bool,
    g_ratio: f64,
}

const MAX_ITER: u64 = 3_000;

/// fit the binary model on (x, names[ycls]) and judge everything the property says about the fit
fn binary_check<C: Label>(
    c: &mut Case,
    x: &Array2<f64>,
    ycls: &[usize],
    names: &[C; 2],
    ns: &NameSpec,
    cfg: &LogCfg,
    fl: Fl,
    layout: Layout,
) -> Result<BinReport<C>, Outcome> {
    let (n, p) = x.dim();
    let y: Array1<C> = ycls.iter().map(|i| names[*i].clone()).collect();
    let ctxj = json!({"n": n, "p": p, "cfg": cfg.describe(), "float": fl.name(), "layout": format!("{layout:?}"),
        "names": format!("{names:?}")});
    // precondition / reference minimum by the harness's own Newton iteration (f64); the minimum
    // and the size of the logits do not depend on which class is coded +1
    let alpha = fl.round(cfg.alpha);
    let (j_star, conv) = {
        let t0: Vec<f64> = ycls.iter().map(|v| if *v == 1 { 1.0 } else { -1.0 }).collect();
        let d = p + cfg.intercept as usize;
        let (th_star, j_star, conv) = newton_min(vec![0.0; d], &|th| binary_hess(x, &t0, alpha, th, cfg.intercept), 100);
        let star = binary_eval(x, &t0, alpha, &th_star[..p], if cfg.intercept { th_star[p] } else { 0.0 }, cfg.intercept);
        if alpha == 0.0 && (!conv || star.zmax > 30.0) {
            c.count("binary-separable-alpha0");
            return Err(inconclusive("alpha = 0 and no finite minimiser (separable / quasi-separable data)"));
        }
        (j_star, conv)
    };
    let model: BinModel<C> = match bin_fit(fl, x, ycls, ns, cfg, layout) {
        FitOut::Panic(panic) => fail!("C12/binary/fit-panic", {"case": ctxj, "panic": panic}),
        FitOut::Err(_, e) => {
            if is_config_rejection(&e) {
                fail!("C12/binary/valid-configuration-rejected", {"case": ctxj, "error": e});
            }
            c.count("binary-fit-err");
            return Err(inconclusive(format!("binary fit returned Err: {}", e.chars().take(50).collect::<String>())));
        }
        FitOut::Hang => {
            c.count("fit-hang-watchdog");
            return Err(inconclusive(HANG_REASON));
        }
        FitOut::Ok(m) => m,
    };
    // class set
    let (pos, neg, _, _) = model.labels();
    let used: BTreeSet<&C> = y.iter().collect();
    let reported: BTreeSet<&C> = [&pos, &neg].into_iter().collect();
    if reported.len() != 2 || used != reported {
        fail!("C12/binary/class-set", {"case": ctxj, "reported_pos": format!("{pos:?}"), "reported_neg": format!("{neg:?}"),
            "training_labels": format!("{used:?}")});
    }
    let w = model.w();
    let b = model.b();
    if w.len() != p {
        fail!("C12/binary/param-shape", {"case": ctxj, "params_len": w.len(), "features": p});
    }
    if w.iter().any(|v| !v.is_finite()) || !b.is_finite() {
        fail!("C12/binary/non-finite-params", {"case": ctxj, "w": fvec(&w), "b": format!("{b}")});
    }
    if !cfg.intercept && b != 0.0 {
        fail!("C12/binary/intercept-without-intercept", {"case": ctxj, "intercept": b});
    }
    let t: Vec<f64> = y.iter().map(|l| if *l == pos { 1.0 } else { -1.0 }).collect();
    let e = binary_eval(x, &t, alpha, &w, b, cfg.intercept);
    let jd = judge_grad(&e, cfg.tol_eff(), fl);
    c.evals += 1;

    if !(jd.g_inf <= jd.thr) {
        // did the solver stop on its own criteria or on the iteration budget? (values only)
        let mut cfg2 = cfg.clone();
        cfg2.max_iter = cfg.max_iter * 4;
        match bin_fit::<C>(fl, x, ycls, ns, &cfg2, layout) {
            FitOut::Ok(m2) => {
                if m2.w() != w || m2.b() != b {
                    c.count("budget-exhausted");
                    return Err(inconclusive("iteration budget exhausted before the solver's own stop"));
                }
            }
            FitOut::Hang => {
                c.count("fit-hang-watchdog");
                return Err(inconclusive(HANG_REASON));
            }
            _ => {
                // the longer run failed (e.g. the line search gave up later on): ask the other way
                // round - had the solver already stopped on its own at half the budget?
                let mut cfg3 = cfg.clone();
                cfg3.max_iter = (cfg.max_iter / 2).max(1);
                match bin_fit::<C>(fl, x, ycls, ns, &cfg3, layout) {
                    FitOut::Ok(m3) if m3.w() == w && m3.b() == b => {}
                    FitOut::Hang => return Err(inconclusive(HANG_REASON)),
                    _ => {
                        c.count("budget-exhausted");
                        return Err(inconclusive("iteration budget exhausted before the solver's own stop (still moving in the second half of the budget; the longer run errs)"));
                    }
                }
            }
        }
        if fl != Fl::F64 {
            // the f32 line-search limitation recorded for the Tweedie fits, met in a logistic fit: from
            // the returned point no admissible step s in [sqrt(eps_f32), 1] along steepest descent
            // lowers the documented objective sufficiently (curvature far above 1/sqrt(eps_f32))
            let gg: f64 = e.grad.iter().map(|v| v * v).sum();
            let mut blocked = true;
            let mut s_try = fl.eps().sqrt();
            while blocked && s_try <= 1.0 {
                let wt: Vec<f64> = (0..p).map(|k| w[k] - s_try * e.grad[k]).collect();
                let bt = if cfg.intercept { b - s_try * e.grad[p] } else { b };
                let jt = binary_eval(x, &t, alpha, &wt, bt, cfg.intercept).j;
                if jt.is_finite() && jt <= e.j - 1e-4 * s_try * gg {
                    blocked = false;
                }
                s_try *= 1.25;
            }
            if blocked {
                fail!("C12/binary/f32-line-search-blocked-at-returned-point", {"A_ratio": jd.g_inf / jd.thr, "case": ctxj, "grad_inf": jd.g_inf,
                    "threshold": jd.thr, "tol": cfg.tol_eff(), "G": e.g_scale, "grad": fvec(&e.grad), "w": fvec(&w), "b": b, "objective": e.j, "oracle_minimum": j_star});
            }
        }
        if fl != Fl::F64 {
            // is it the configuration or the arithmetic? The same data and settings in f64: when that
            // fit is stationary, the gradient code is right for this problem and the f32 run stopped
            // short (argmin's line search / cost test in f32) - recorded as a finding of its own
            if let FitOut::Ok(m64) = bin_fit::<C>(Fl::F64, x, ycls, ns, cfg, layout) {
                let e64 = binary_eval(x, &t, cfg.alpha, &m64.w(), m64.b(), cfg.intercept);
                let jd64 = judge_grad(&e64, cfg.tol_eff(), Fl::F64);
                if jd64.g_inf <= jd64.thr {
                    fail!("C12/binary/f32-fit-stops-short-where-the-f64-fit-converges", {"A_ratio": jd.g_inf / jd.thr, "case": ctxj, "grad_inf": jd.g_inf,
                        "threshold": jd.thr, "tol": cfg.tol_eff(), "G": e.g_scale, "w": fvec(&w), "b": b, "objective": e.j, "oracle_minimum": j_star,
                        "f64_grad_inf": jd64.g_inf, "f64_threshold": jd64.thr});
                }
            }
        }
        if let Ok(dir) = std::env::var("C12_DUMP") {
            let _ = std::fs::write(format!("{dir}/binary-{}.json", c.idx), serde_json::to_string(&json!({
                "x": x.rows().into_iter().map(|r| r.to_vec()).collect::<Vec<_>>(), "t": t, "alpha": alpha,
                "intercept": cfg.intercept, "tol": cfg.tol_eff(), "max_iter": cfg.max_iter, "w": fvec(&w), "b": b})).unwrap());
        }
        fail!("C12/binary/not-stationary", {"A_ratio": jd.g_inf / jd.thr, "case": ctxj, "grad_inf": jd.g_inf, "threshold": jd.thr,
            "tol": cfg.tol_eff(), "G": e.g_scale, "grad": fvec(&e.grad), "w": fvec(&w), "b": b,
            "objective": e.j, "oracle_minimum": j_star, "pos": format!("{pos:?}")});
    }
    let tag = fl.name();
    c.resid(&format!("binary-grad/threshold[{tag}]"), jd.g_inf / jd.thr);
    c.resid(&format!("binary-grad/(10*tol)[{tag}]"), jd.g_inf / (10.0 * cfg.tol_eff()));
    c.resid(&format!("binary-grad/G[{tag}]"), jd.g_inf / e.g_scale);
    if jd.g_inf > 10.0 * cfg.tol_eff() {
        c.count(&format!("binary-floor-decided[{tag}]"));
        c.resid(&format!("binary-grad/sqrt(eps*J*L)-when-above-tol[{tag}]"), jd.g_inf / (fl.eps() * e.jn.abs() * e.l_bound).sqrt());
    }
    if conv {
        c.resid(&format!("binary-subopt-rel[{tag}]"), (e.j - j_star) / j_star.abs().max(1e-300));
        if std::env::var("C12_DEBUG").is_ok() && ((e.j - j_star) / j_star.abs() > 1e-2 || jd.g_inf / e.g_scale > 1e-4) {
            eprintln!("DBG binary idx={} {} n={n} p={p} {} J={} J*={} g={} thr={} tol={} floor_sum={} floor_stall={} G={} L={} notes={:?}",
                c.idx, tag, cfg.describe(), e.j, j_star, jd.g_inf, jd.thr, cfg.tol_eff(), jd.floor_sum, jd.floor_stall, e.g_scale, e.l_bound, c.notes.get("features"));
        }
    }

    // probabilities on the training rows and the decision at the default threshold
    let probs = match model.probs(x, layout) {
        Ok(v) => v,
        Err(pn) => fail!("C12/binary/predict-panic", {"case": ctxj, "panic": pn}),
    };
    let pred = match model.predict(x, layout) {
        Ok(v) => v,
        Err(pn) => fail!("C12/binary/predict-panic", {"case": ctxj, "panic": pn}),
    };
    check_binary_probs(c, x, &w, b, fl, &probs, &pred, 0.5, &pos, &neg, &ctxj)?;

    // non-trivial: the start point is far from stationary
    let (w0, b0): (Vec<f64>, f64) = match &cfg.init {
        Some(a) => (
            (0..p).map(|k| fl.round(a[[k, 0]])).collect(),
            if cfg.intercept { fl.round(a[[p, 0]]) } else { 0.0 },
        ),
        None => (vec![0.0; p], 0.0),
    };
    let e0 = binary_eval(x, &t, alpha, &w0, b0, cfg.intercept);
    let nontrivial = inf_norm(&e0.grad) > 100.0 * jd.thr;
    Ok(BinReport {
        pos_is_name0: pos == names[0],
        model,
        probs_train: probs,
        nontrivial,
        g_ratio: jd.g_inf / jd.thr,
    })
}

/// probabilities in [0,1], equal to sigma(x.w+b) up to the rounding of the logit, and the
/// predicted class equal to the one implied by `prob >= threshold`
fn check_binary_probs<C: Ord + Clone + Debug>(
    c: &mut Case,
    x: &Array2<f64>,
    w: &[f64],
    b: f64,
    fl: Fl,
    probs: &[f64],
    pred: &[C],
    thr: f64,
    pos: &C,
    neg: &C,
    ctxj: &Value,
) -> Result<(), Outcome> {
    let (n, p) = x.dim();
    if probs.len() != n || pred.len() != n {
        fail!("C12/binary/output-shape", {"case": ctxj, "rows": n, "probabilities": probs.len(), "predictions": pred.len()});
    }
    let thr_f = fl.round(thr);
    for i in 0..n {
        let pr = probs[i];
        if !(pr >= 0.0 && pr <= 1.0) {
            fail!("C12/binary/probability-out-of-range", {"case": ctxj, "row": i, "probability": format!("{pr}"),
                "x": fvec(&x.row(i).to_vec()), "w": fvec(w), "b": b});
        }
        let mut z = b;
        let mut za = b.abs();
        for k in 0..p {
            z += x[[i, k]] * w[k];
            za += (x[[i, k]] * w[k]).abs();
        }
        let dz = 4.0 * fl.eps() * (p as f64 + 2.0) * za;
        // below the smallest normal number of F the result may be flushed (exp overflow -> 1/inf = 0)
        let tiny = if fl == Fl::F32 { 4e-38 } else { 1e-307 };
        let lo = sigmoid(z - dz) * (1.0 - 8.0 * fl.eps()) - tiny;
        let hi = sigmoid(z + dz) * (1.0 + 8.0 * fl.eps()) + tiny;
        c.evals += 1;
        if !(pr >= lo && pr <= hi) {
            fail!("C12/binary/probability-value", {"case": ctxj, "row": i, "probability": pr, "logit": z,
                "admissible": [lo, hi]});
        }
        if z.is_finite() && dz < 1.0 {
            let s = sigmoid(z);
            c.resid(&format!("binary-prob-err/eps[{}]", fl.name()), (pr - s).abs() / (fl.eps() * (1.0 + za)));
        }
        let expect = if pr >= thr_f { pos } else { neg };
        if &pred[i] != expect {
            fail!("C12/binary/decision-mismatch", {"case": ctxj, "row": i, "probability": pr, "threshold": thr_f,
                "predicted": format!("{:?}", pred[i]), "implied": format!("{expect:?}")});
        }
        if pr == thr_f {
            c.count("binary-prob-equals-threshold");
        }
    }
    Ok(())
}

// -------------------------------------------------------------------- multinomial monitor

struct MultiReport<C: Label> {
    model: MultiModel<C>,
    classes: Vec<C>,
    probs_train: Vec<f64>,
    nontrivial: bool,
    g_ratio: f64,
}

fn multi_check<C: Label>(
    c: &mut Case,
    x: &Array2<f64>,
    ycls: &[usize],
    names: &[C],
    ns: &NameSpec,
    cfg: &LogCfg,
    fl: Fl,
    layout: Layout,
) -> Result<MultiReport<C>, Outcome> {
    let (n, p) = x.dim();
    let y: Array1<C> = ycls.iter().map(|i| names[*i].clone()).collect();
    let ctxj = json!({"n": n, "p": p, "cfg": cfg.describe(), "float": fl.name(), "layout": format!("{layout:?}"),
        "names": format!("{names:?}")});
    // precondition / reference minimum (invariant under a renumbering of the classes)
    let alpha = fl.round(cfg.alpha);
    let (j_star, conv) = {
        let present: Vec<usize> = ycls.iter().cloned().collect::<BTreeSet<_>>().into_iter().collect();
        let k0 = present.len();
        let y0: Vec<usize> = ycls.iter().map(|v| present.iter().position(|q| q == v).unwrap()).collect();
        let d = p + cfg.intercept as usize;
        let (th_star, j_star, conv) = newton_min(vec![0.0; d * k0], &|th| multi_hess(x, &y0, k0, alpha, th, cfg.intercept), 100);
        let zero = vec![0.0; k0];
        let star = multi_eval(x, &y0, k0, alpha, &th_star[..p * k0], if cfg.intercept { &th_star[p * k0..] } else { &zero }, cfg.intercept);
        if alpha == 0.0 && (!conv || star.zmax > 30.0) {
            c.count("multi-separable-alpha0");
            return Err(inconclusive("alpha = 0 and no finite minimiser (separable / quasi-separable data)"));
        }
        (j_star, conv)
    };
    let model: MultiModel<C> = match multi_fit(fl, x, ycls, ns, cfg, layout) {
        FitOut::Panic(panic) => fail!("C12/multi/fit-panic", {"case": ctxj, "panic": panic}),
        FitOut::Err(_, e) => {
            if std::env::var("C12_DEBUG").is_ok() {
                eprintln!("DBG multi-err idx={} {ctxj} notes={:?}", c.idx, c.notes);
            }
            if is_config_rejection(&e) {
                fail!("C12/multi/valid-configuration-rejected", {"case": ctxj, "error": e});
            }
            c.count("multi-fit-err");
            return Err(inconclusive(format!("multi fit returned Err: {}", e.chars().take(50).collect::<String>())));
        }
        FitOut::Hang => {
            if std::env::var("C12_DEBUG").is_ok() {
                eprintln!("DBG multi-hang idx={} {ctxj} notes={:?}", c.idx, c.notes);
            }
            c.count("fit-hang-watchdog");
            return Err(inconclusive(HANG_REASON));
        }
        FitOut::Ok(m) => m,
    };
    let classes = model.classes();
    let used: BTreeSet<&C> = y.iter().collect();
    let reported: BTreeSet<&C> = classes.iter().collect();
    if reported.len() != classes.len() || used != reported {
        fail!("C12/multi/class-set", {"case": ctxj, "reported": format!("{classes:?}"), "training_labels": format!("{used:?}")});
    }
    let k = classes.len();
    let (w, wr, wc) = model.w();
    let b = model.b();
    if wr != p || wc != k || b.len() != k {
        fail!("C12/multi/param-shape", {"case": ctxj, "params": [wr, wc], "intercept_len": b.len(), "features": p, "classes": k});
    }
    if w.iter().any(|v| !v.is_finite()) || b.iter().any(|v| !v.is_finite()) {
        fail!("C12/multi/non-finite-params", {"case": ctxj, "W": fvec(&w), "b": fvec(&b)});
    }
    if !cfg.intercept && b.iter().any(|v| *v != 0.0) {
        fail!("C12/multi/intercept-without-intercept", {"case": ctxj, "intercept": fvec(&b)});
    }
    let ycol: Vec<usize> = y.iter().map(|l| classes.iter().position(|q| q == l).unwrap()).collect();
    let e = multi_eval(x, &ycol, k, alpha, &w, &b, cfg.intercept);
    let jd = judge_grad(&e, cfg.tol_eff(), fl);
    c.evals += 1;

    if !(jd.g_inf <= jd.thr) {
        let mut cfg2 = cfg.clone();
        cfg2.max_iter = cfg.max_iter * 4;
        match multi_fit::<C>(fl, x, ycls, ns, &cfg2, layout) {
            FitOut::Ok(m2) => {
                if m2.w().0 != w || m2.b() != b {
                    c.count("budget-exhausted");
                    return Err(inconclusive("iteration budget exhausted before the solver's own stop"));
                }
            }
            FitOut::Hang => {
                c.count("fit-hang-watchdog");
                return Err(inconclusive(HANG_REASON));
            }
            _ => {
                let mut cfg3 = cfg.clone();
                cfg3.max_iter = (cfg.max_iter / 2).max(1);
                match multi_fit::<C>(fl, x, ycls, ns, &cfg3, layout) {
                    FitOut::Ok(m3) if m3.w().0 == w && m3.b() == b => {}
                    FitOut::Hang => return Err(inconclusive(HANG_REASON)),
                    _ => {
                        c.count("budget-exhausted");
                        return Err(inconclusive("iteration budget exhausted before the solver's own stop (still moving in the second half of the budget; the longer run errs)"));
                    }
                }
            }
        }
        if fl != Fl::F64 {
            if let FitOut::Ok(m64) = multi_fit::<C>(Fl::F64, x, ycls, ns, cfg, layout) {
                let e64 = multi_eval(x, &ycol, k, cfg.alpha, &m64.w().0, &m64.b(), cfg.intercept);
                let jd64 = judge_grad(&e64, cfg.tol_eff(), Fl::F64);
                if jd64.g_inf <= jd64.thr {
                    fail!("C12/multi/f32-fit-stops-short-where-the-f64-fit-converges", {"A_ratio": jd.g_inf / jd.thr, "case": ctxj, "grad_inf": jd.g_inf,
                        "threshold": jd.thr, "tol": cfg.tol_eff(), "G": e.g_scale, "objective": e.j, "oracle_minimum": j_star,
                        "f64_grad_inf": jd64.g_inf, "f64_threshold": jd64.thr});
                }
            }
        }
        if let Ok(dir) = std::env::var("C12_DUMP") {
            let _ = std::fs::write(format!("{dir}/multi-{}.json", c.idx), serde_json::to_string(&json!({
                "x": x.rows().into_iter().map(|r| r.to_vec()).collect::<Vec<_>>(), "y": ycol, "k": k, "alpha": alpha,
                "intercept": cfg.intercept, "tol": cfg.tol_eff(), "max_iter": cfg.max_iter, "W": fvec(&w), "b": fvec(&b)})).unwrap());
        }
        fail!("C12/multi/not-stationary", {"A_ratio": jd.g_inf / jd.thr, "case": ctxj, "grad_inf": jd.g_inf, "threshold": jd.thr,
            "tol": cfg.tol_eff(), "G": e.g_scale, "grad": fvec(&e.grad), "W": fvec(&w), "b": fvec(&b),
            "objective": e.j, "oracle_minimum": j_star, "logit_spread": e.zmax, "classes": format!("{classes:?}")});
    }
    let tag = fl.name();
    c.resid(&format!("multi-grad/threshold[{tag}]"), jd.g_inf / jd.thr);
    c.resid(&format!("multi-grad/(10*tol)[{tag}]"), jd.g_inf / (10.0 * cfg.tol_eff()));
    c.resid(&format!("multi-grad/G[{tag}]"), jd.g_inf / e.g_scale);
    if jd.g_inf > 10.0 * cfg.tol_eff() {
        c.count(&format!("multi-floor-decided[{tag}]"));
        c.resid(&format!("multi-grad/sqrt(eps*J*L)-when-above-tol[{tag}]"), jd.g_inf / (fl.eps() * e.jn.abs() * e.l_bound).sqrt());
    }
    if conv {
        c.resid(&format!("multi-subopt-rel[{tag}]"), (e.j - j_star) / j_star.abs().max(1e-300));
    }
    if std::env::var("C12_DEBUG").is_ok() && jd.g_inf / jd.thr > 0.2 {
        eprintln!("DBG multi-tight idx={} {ctxj} ratio={} g={} thr={} tol={} G={} J={} J*={} spread={} L={} feat={:?}",
            c.idx, jd.g_inf / jd.thr, jd.g_inf, jd.thr, cfg.tol_eff(), e.g_scale, e.j, j_star, e.zmax, e.l_bound, c.notes.get("features"));
    }

    let (probs, pr_rows, pr_cols) = match model.probs(x, layout) {
        Ok(v) => v,
        Err(pn) => fail!("C12/multi/predict-panic", {"case": ctxj, "panic": pn}),
    };
    let pred = match model.predict(x, layout) {
        Ok(v) => v,
        Err(pn) => fail!("C12/multi/predict-panic", {"case": ctxj, "panic": pn}),
    };
    check_multi_probs(c, x, &w, &b, k, fl, &probs, pr_rows, pr_cols, &pred, &classes, &ctxj)?;

    let (w0, b0): (Vec<f64>, Vec<f64>) = match &cfg.init {
        Some(a) => (
            (0..p * k).map(|q| fl.round(a[[q / k, q % k]])).collect(),
            if cfg.intercept { (0..k).map(|q| fl.round(a[[p, q]])).collect() } else { vec![0.0; k] },
        ),
        None => (vec![0.0; p * k], vec![0.0; k]),
    };
    let e0 = multi_eval(x, &ycol, k, alpha, &w0, &b0, cfg.intercept);
    let nontrivial = inf_norm(&e0.grad) > 100.0 * jd.thr;
    Ok(MultiReport { model, classes, probs_train: probs, nontrivial, g_ratio: jd.g_inf / jd.thr })
}

/// rows in [0,1] summing to one, equal to softmax(xW+b) up to the rounding of the logits, and the
/// predicted class a maximiser of the probabilities (and of the logits up to their rounding)
fn check_multi_probs<C: Ord + Clone + Debug>(
    c: &mut Case,
    x: &Array2<f64>,
    w: &[f64],
    b: &[f64],
    k: usize,
    fl: Fl,
    probs: &[f64],
    pr_rows: usize,
    pr_cols: usize,
    pred: &[C],
    classes: &[C],
    ctxj: &Value,
) -> Result<(), Outcome> {
    let (n, p) = x.dim();
    if pr_rows != n || pr_cols != k || probs.len() != n * k || pred.len() != n {
        fail!("C12/multi/output-shape", {"case": ctxj, "rows": n, "classes": k, "probabilities": [pr_rows, pr_cols], "predictions": pred.len()});
    }
    for i in 0..n {
        let row = &probs[i * k..(i + 1) * k];
        let mut z = vec![0.0; k];
        let mut dz: f64 = 0.0;
        for cc in 0..k {
            let mut s = b[cc];
            let mut sa = b[cc].abs();
            for a in 0..p {
                s += x[[i, a]] * w[a * k + cc];
                sa += (x[[i, a]] * w[a * k + cc]).abs();
            }
            z[cc] = s;
            dz = dz.max(4.0 * fl.eps() * (p as f64 + 2.0) * sa);
        }
        let mut sum = 0.0;
        for (cc, pr) in row.iter().enumerate() {
            if !(*pr >= 0.0 && *pr <= 1.0) {
                fail!("C12/multi/probability-out-of-range", {"case": ctxj, "row": i, "class_index": cc,
                    "probabilities": fvec(row), "logits": fvec(&z)});
            }
            sum += pr;
        }
        c.evals += 1;
        let sum_tol = 4.0 * (k as f64 + 1.0) * fl.eps();
        c.resid(&format!("multi-rowsum-err/eps[{}]", fl.name()), (sum - 1.0).abs() / fl.eps());
        if !((sum - 1.0).abs() <= sum_tol) {
            fail!("C12/multi/row-sum", {"case": ctxj, "row": i, "sum": sum, "probabilities": fvec(row), "tolerance": sum_tol});
        }
        // admissible interval of every probability given logits known up to +-dz
        let zm = z.iter().cloned().fold(f64::NEG_INFINITY, f64::max);
        for cc in 0..k {
            let others_hi: f64 = (0..k).filter(|q| *q != cc).map(|q| (z[q] + dz - zm).exp()).sum();
            let others_lo: f64 = (0..k).filter(|q| *q != cc).map(|q| (z[q] - dz - zm).exp()).sum();
            let me_lo = (z[cc] - dz - zm).exp();
            let me_hi = (z[cc] + dz - zm).exp();
            let lo = if me_lo == 0.0 { 0.0 } else { me_lo / (me_lo + others_hi) };
            let hi = if others_lo == 0.0 { 1.0 } else { me_hi / (me_hi + others_lo) };
            let lo = lo * (1.0 - 16.0 * fl.eps()) - if fl == Fl::F32 { 1e-37 } else { 1e-300 };
            let hi = hi * (1.0 + 16.0 * fl.eps()) + if fl == Fl::F32 { 1e-37 } else { 1e-300 };
            if !(row[cc] >= lo && row[cc] <= hi) {
                fail!("C12/multi/probability-value", {"case": ctxj, "row": i, "class_index": cc, "probability": row[cc],
                    "admissible": [lo, hi], "logits": fvec(&z), "logit_uncertainty": dz});
            }
        }
        let pmax = row.iter().cloned().fold(f64::NEG_INFINITY, f64::max);
        let nmax = row.iter().filter(|v| **v == pmax).count();
        if nmax > 1 {
            c.count("multi-argmax-tie-class");
        }
        let Some(pi) = classes.iter().position(|q| q == &pred[i]) else {
            fail!("C12/multi/decision-mismatch", {"case": ctxj, "row": i, "predicted": format!("{:?}", pred[i]), "why": "not a reported class"});
        };
        if row[pi] != pmax || !(z[pi] >= zm - 2.0 * dz) {
            fail!("C12/multi/decision-mismatch", {"case": ctxj, "row": i, "predicted": format!("{:?}", pred[i]),
                "predicted_index": pi, "probabilities": fvec(row), "logits": fvec(&z)});
        }
    }
    Ok(())
}

fn gen_init(rng: &mut Rng, f: &Feat, intercept: bool, k: usize) -> Array2<f64> {
    let p = f.scale.len();
    let d = p + intercept as usize;
    Array2::from_shape_fn((d, k), |(a, _)| {
        if a < p {
            0.5 * normal(rng) / f.scale[a]
        } else {
            0.5 * normal(rng)
        }
    })
}

// ------------------------------------------------------------------------------- families

fn case_binary_random(c: &mut Case) -> Outcome {
    let fl = if c.rng.gen_range(0..4) == 0 { Fl::F32 } else { Fl::F64 };
    let p = c.rng.gen_range(1..=6usize);
    let n = if c.rng.gen_bool(0.4) {
        c.rng.gen_range(p + 2..=30)
    } else {
        c.rng.gen_range(30..=c.tier.pick(120, 250))
    };
    let mut mode = c.rng.gen_range(0..N_MODES);
    if mode == 3 && p < 2 {
        mode = 0;
    }
    let f = gen_features(&mut c.rng, n, p, mode, fl);
    let strength = *pick(&mut c.rng, &[0.5, 1.5, 3.0]);
    let shift = *pick(&mut c.rng, &[0.0, 0.0, 1.5, -1.5, 3.0, -3.0]);
    let y = gen_binary_labels(&mut c.rng, &f, strength, shift);
    let intercept = c.rng.gen_bool(0.7);
    let cfg = LogCfg {
        alpha: pick_alpha(&mut c.rng),
        intercept,
        tol: pick_tol(&mut c.rng, fl),
        max_iter: MAX_ITER,
        init: if c.rng.gen_bool(0.3) { Some(gen_init(&mut c.rng, &f, intercept, 1)) } else { None },
    };
    let layout = pick_layout(&mut c.rng);
    let lt = c.rng.gen_range(0..N_BIN_LTYPES);
    let swap = c.rng.gen_bool(0.5);
    let n1 = y.iter().filter(|v| **v == 1).count();
    c.note("n", json!(n));
    c.note("p", json!(p));
    c.note("features", json!(mode_name(mode)));
    c.note("class1_fraction", json!(n1 as f64 / n as f64));
    c.note("config", json!(cfg.describe()));
    c.note("float", json!(fl.name()));
    c.note("layout", json!(format!("{layout:?}")));
    c.note("label_type", json!(ltype_name(lt)));
    let key = format!("n{n} p{p} {} {} {} {layout:?} {} s{swap} y{}", mode_name(mode), cfg.describe(), fl.name(), ltype_name(lt), small_hash(&y));
    let ns = NameSpec { lt, swap, perm: vec![] };
    with_binary_names!(lt, swap, |names| {
        match binary_check(c, &f.x, &y, &names, &ns, &cfg, fl, layout) {
            Ok(r) => {
                c.note("grad/threshold", json!(r.g_ratio));
                held(r.nontrivial, key)
            }
            Err(o) => o,
        }
    })
}

/// one dataset, many presentations: label type, label naming, sample order, memory layout
fn case_binary_metamorphic(c: &mut Case) -> Outcome {
    let fl = if c.rng.gen_range(0..4) == 0 { Fl::F32 } else { Fl::F64 };
    let p = c.rng.gen_range(1..=4usize);
    let n = c.rng.gen_range(12..=c.tier.pick(60, 120));
    let mode = *pick(&mut c.rng, &[0u32, 2, 4, 5]);
    let f = gen_features(&mut c.rng, n, p, mode, fl);
    let shift = *pick(&mut c.rng, &[0.0, 1.5, -3.0]);
    let y = gen_binary_labels(&mut c.rng, &f, 1.5, shift);
    let cfg = LogCfg {
        alpha: *pick(&mut c.rng, &[0.0, 0.5, 5.0]),
        intercept: c.rng.gen_bool(0.7),
        tol: Some(if fl == Fl::F64 { 1e-8 } else { 1e-3 }),
        max_iter: MAX_ITER,
        init: None,
    };
    c.note("n", json!(n));
    c.note("p", json!(p));
    c.note("features", json!(mode_name(mode)));
    c.note("config", json!(cfg.describe()));
    c.note("float", json!(fl.name()));
    // probability of generated class 1 per original row, per variant
    let mut views: Vec<Vec<f64>> = vec![];
    let mut nontrivial = true;
    macro_rules! variant {
        ($lt:expr, $swap:expr, $x:expr, $y:expr, $layout:expr, $unperm:expr) => {
            with_binary_names!($lt, $swap, |names| {
                let ns = NameSpec { lt: $lt, swap: $swap, perm: vec![] };
                match binary_check(c, $x, $y, &names, &ns, &cfg, fl, $layout) {
                    Ok(r) => {
                        nontrivial &= r.nontrivial;
                        // names[1] is generated class 1
                        let p1: Vec<f64> = r.probs_train.iter().map(|q| if r.pos_is_name0 { 1.0 - q } else { *q }).collect();
                        let unperm: &Option<Vec<usize>> = $unperm;
                        let p1 = match unperm {
                            Some(perm) => {
                                let mut o = vec![0.0; p1.len()];
                                for (newi, oldi) in perm.iter().enumerate() {
                                    o[*oldi] = p1[newi];
                                }
                                o
                            }
                            None => p1,
                        };
                        views.push(p1);
                    }
                    Err(o) => return o,
                }
            })
        };
    }
    let none: Option<Vec<usize>> = None;
    variant!(0, false, &f.x, &y, Layout::C, &none);
    variant!(0, true, &f.x, &y, Layout::C, &none);
    variant!(1, false, &f.x, &y, Layout::F, &none);
    variant!(2, true, &f.x, &y, Layout::C, &none);
    variant!(4, false, &f.x, &y, Layout::Strided, &none);
    // permuted sample order
    let perm = permutation(&mut c.rng, n);
    let xp = Array2::from_shape_fn((n, p), |(i, j)| f.x[[perm[i], j]]);
    let yp: Vec<usize> = perm.iter().map(|i| y[*i]).collect();
    let some = Some(perm);
    variant!(1, true, &xp, &yp, Layout::C, &some);
    variant!(3, false, &xp, &yp, Layout::C, &some);
    let mut diff: f64 = 0.0;
    for v in &views[1..] {
        for (a, b) in v.iter().zip(views[0].iter()) {
            diff = diff.max((a - b).abs());
        }
    }
    if cfg.alpha > 0.0 {
        c.resid(&format!("binary-metamorphic-prob-diff[{}]", fl.name()), diff);
    }
    held(nontrivial, format!("n{n} p{p} {} {} {} y{}", mode_name(mode), cfg.describe(), fl.name(), small_hash(&y)))
}

const ENUM_BIN_N: usize = 6;
fn enum_binary_count() -> u64 {
    ((1u64 << ENUM_BIN_N) - 2) * 2 * 3
}
/// every non-constant labelling of six grid points x intercept x alpha in {0, 0.5, 5}
fn case_binary_enum(c: &mut Case) -> Outcome {
    let nl = (1u64 << ENUM_BIN_N) - 2;
    let lab = c.idx % nl + 1;
    let rest = c.idx / nl;
    let intercept = rest % 2 == 0;
    let alpha = [0.5, 5.0, 0.0][(rest / 2 % 3) as usize];
    let x = Array2::from_shape_fn((ENUM_BIN_N, 1), |(i, _)| i as f64 - 2.0);
    let y: Vec<usize> = (0..ENUM_BIN_N).map(|i| ((lab >> i) & 1) as usize).collect();
    let cfg = LogCfg { alpha, intercept, tol: Some(1e-8), max_iter: MAX_ITER, init: None };
    c.note("labels", json!(y));
    c.note("config", json!(cfg.describe()));
    let lt = (c.idx % 2) as u32;
    let key = format!("lab{lab} {}", cfg.describe());
    let ns = NameSpec { lt, swap: false, perm: vec![] };
    with_binary_names!(lt, false, |names| {
        match binary_check(c, &x, &y, &names, &ns, &cfg, Fl::F64, Layout::C) {
            Ok(r) => held(r.nontrivial, key),
            Err(o) => o,
        }
    })
}

fn case_multi_random(c: &mut Case) -> Outcome {
    let fl = if c.rng.gen_range(0..4) == 0 { Fl::F32 } else { Fl::F64 };
    let p = c.rng.gen_range(1..=5usize);
    let k = c.rng.gen_range(2..=6usize);
    let n = if c.rng.gen_bool(0.3) {
        c.rng.gen_range(k + 2..=30)
    } else {
        c.rng.gen_range(30..=c.tier.pick(100, 200))
    };
    let mut mode = c.rng.gen_range(0..N_MODES);
    if mode == 3 && p < 2 {
        mode = 0;
    }
    let f = gen_features(&mut c.rng, n, p, mode, fl);
    let strength = *pick(&mut c.rng, &[0.5, 1.5, 3.0]);
    let y = gen_multi_labels(&mut c.rng, &f, k, strength);
    let present = y.iter().collect::<BTreeSet<_>>().len();
    let intercept = c.rng.gen_bool(0.7);
    let cfg = LogCfg {
        alpha: pick_alpha(&mut c.rng),
        intercept,
        tol: pick_tol(&mut c.rng, fl),
        max_iter: MAX_ITER,
        init: if c.rng.gen_bool(0.3) { Some(gen_init(&mut c.rng, &f, intercept, present)) } else { None },
    };
    let layout = pick_layout(&mut c.rng);
    let lt = c.rng.gen_range(0..N_MULTI_LTYPES);
    let perm = permutation(&mut c.rng, 6);
    c.note("n", json!(n));
    c.note("p", json!(p));
    c.note("classes_generated", json!(k));
    c.note("classes_present", json!(present));
    c.note("features", json!(mode_name(mode)));
    c.note("config", json!(cfg.describe()));
    c.note("float", json!(fl.name()));
    c.note("layout", json!(format!("{layout:?}")));
    let key = format!("n{n} p{p} k{k}/{present} {} {} {} {layout:?} lt{lt} y{}", mode_name(mode), cfg.describe(), fl.name(), small_hash(&y));
    let ns = NameSpec { lt, swap: false, perm: perm.clone() };
    with_multi_names!(lt, perm, |names| {
        match multi_check(c, &f.x, &y, &names, &ns, &cfg, fl, layout) {
            Ok(r) => {
                c.note("grad/threshold", json!(r.g_ratio));
                held(r.nontrivial, key)
            }
            Err(o) => o,
        }
    })
}

fn case_multi_metamorphic(c: &mut Case) -> Outcome {
    let fl = if c.rng.gen_range(0..4) == 0 { Fl::F32 } else { Fl::F64 };
    let p = c.rng.gen_range(1..=3usize);
    let k = c.rng.gen_range(2..=5usize);
    let n = c.rng.gen_range(8 * k..=c.tier.pick(60, 120).max(8 * k + 1));
    let mode = *pick(&mut c.rng, &[0u32, 2, 5]);
    let f = gen_features(&mut c.rng, n, p, mode, fl);
    let y = gen_multi_labels(&mut c.rng, &f, k, 1.5);
    let cfg = LogCfg {
        alpha: *pick(&mut c.rng, &[0.0, 0.5, 5.0]),
        intercept: c.rng.gen_bool(0.7),
        tol: Some(if fl == Fl::F64 { 1e-8 } else { 1e-3 }),
        max_iter: MAX_ITER,
        init: None,
    };
    c.note("n", json!(n));
    c.note("p", json!(p));
    c.note("k", json!(k));
    c.note("config", json!(cfg.describe()));
    c.note("float", json!(fl.name()));
    // per variant: probability of generated class g at original row i
    let mut views: Vec<Vec<f64>> = vec![];
    let mut nontrivial = true;
    macro_rules! variant {
        ($lt:expr, $perm6:expr, $x:expr, $y:expr, $layout:expr, $unperm:expr) => {
            with_multi_names!($lt, $perm6, |names| {
                let ns = NameSpec { lt: $lt, swap: false, perm: $perm6.clone() };
                match multi_check(c, $x, $y, &names, &ns, &cfg, fl, $layout) {
                    Ok(r) => {
                        nontrivial &= r.nontrivial;
                        let kk = r.classes.len();
                        let nn = r.probs_train.len() / kk.max(1);
                        let mut o = vec![0.0; nn * k];
                        let unperm: &Option<Vec<usize>> = $unperm;
                        for i in 0..nn {
                            let oi = match unperm {
                                Some(pm) => pm[i],
                                None => i,
                            };
                            for (col, cl) in r.classes.iter().enumerate() {
                                let g = names.iter().position(|q| q == cl).unwrap();
                                if g < k {
                                    o[oi * k + g] = r.probs_train[i * kk + col];
                                }
                            }
                        }
                        views.push(o);
                    }
                    Err(o) => return o,
                }
            })
        };
    }
    let none: Option<Vec<usize>> = None;
    let id6: Vec<usize> = (0..6).collect();
    let rev6: Vec<usize> = (0..6).rev().collect();
    let rnd6 = permutation(&mut c.rng, 6);
    variant!(0, id6, &f.x, &y, Layout::C, &none);
    variant!(0, rev6, &f.x, &y, Layout::F, &none);
    variant!(1, rnd6, &f.x, &y, Layout::C, &none);
    variant!(2, id6, &f.x, &y, Layout::Strided, &none);
    let perm = permutation(&mut c.rng, n);
    let xp = Array2::from_shape_fn((n, p), |(i, j)| f.x[[perm[i], j]]);
    let yp: Vec<usize> = perm.iter().map(|i| y[*i]).collect();
    let some = Some(perm);
    variant!(1, rev6, &xp, &yp, Layout::C, &some);
    let mut diff: f64 = 0.0;
    for v in &views[1..] {
        for (a, b) in v.iter().zip(views[0].iter()) {
            diff = diff.max((a - b).abs());
        }
    }
    if cfg.alpha > 0.0 {
        c.resid(&format!("multi-metamorphic-prob-diff[{}]", fl.name()), diff);
    }
    held(nontrivial, format!("n{n} p{p} k{k} {} {} y{}", cfg.describe(), fl.name(), small_hash(&y)))
}

const ENUM_MULTI_N: usize = 5;
fn enum_multi_count() -> u64 {
    3u64.pow(ENUM_MULTI_N as u32) * 2 * 2
}
/// every labelling of five grid points with labels {0,1,2} (>= 2 classes) x intercept x alpha
fn case_multi_enum(c: &mut Case) -> Outcome {
    let nl = 3u64.pow(ENUM_MULTI_N as u32);
    let mut lab = c.idx % nl;
    let rest = c.idx / nl;
    let intercept = rest % 2 == 0;
    let alpha = [0.5, 0.0][(rest / 2 % 2) as usize];
    let mut y = vec![0usize; ENUM_MULTI_N];
    for v in y.iter_mut() {
        *v = (lab % 3) as usize;
        lab /= 3;
    }
    if y.iter().all(|v| *v == y[0]) {
        return inconclusive("single-class labelling (outside the domain)");
    }
    let x = Array2::from_shape_fn((ENUM_MULTI_N, 1), |(i, _)| i as f64 - 2.0);
    let cfg = LogCfg { alpha, intercept, tol: Some(1e-8), max_iter: MAX_ITER, init: None };
    c.note("labels", json!(y));
    c.note("config", json!(cfg.describe()));
    let key = format!("lab{:?} {}", y, cfg.describe());
    // label type 0 with the identity naming: class index g is labelled [10, 3, 7][g]
    let id6: Vec<usize> = (0..6).collect();
    let ns = NameSpec { lt: 0, swap: false, perm: id6.clone() };
    with_multi_names!(0, id6, |names| {
        match multi_check(c, &x, &y, &names, &ns, &cfg, Fl::F64, Layout::C) {
            Ok(r) => held(r.nontrivial, key),
            Err(o) => o,
        }
    })
}

// --------------------------------------------------------------- probabilities, extreme inputs

const EXTREME_LOGITS: [f64; 14] = [0.0, 1e-3, 1.0, 20.0, 37.0, 40.0, 89.0, 104.0, 710.0, 745.0, 1e3, 1e6, 1e30, 3e-20];

fn case_prob_binary(c: &mut Case) -> Outcome {
    let fl = if c.rng.gen_bool(0.4) { Fl::F32 } else { Fl::F64 };
    let p = c.rng.gen_range(1..=4usize);
    let n = c.rng.gen_range(20..=60usize);
    let f = gen_features(&mut c.rng, n, p, 0, fl);
    let y = gen_binary_labels(&mut c.rng, &f, 1.5, 0.0);
    let cfg = LogCfg {
        alpha: *pick(&mut c.rng, &[0.0009765625, 0.5, 5.0]),
        intercept: c.rng.gen_bool(0.7),
        tol: None,
        max_iter: 200,
        init: None,
    };
    let layout = pick_layout(&mut c.rng);
    let lt = c.rng.gen_range(0..N_BIN_LTYPES);
    let swap = c.rng.gen_bool(0.5);
    c.note("float", json!(fl.name()));
    c.note("config", json!(cfg.describe()));
    c.note("label_type", json!(ltype_name(lt)));
    let ns = NameSpec { lt, swap, perm: vec![] };
    with_binary_names!(lt, swap, |names| {
        let mut model = match bin_fit_like(&names[0], fl, &f.x, &y, &ns, &cfg, Layout::C) {
            FitOut::Panic(pn) => bail!("C12/binary/fit-panic", {"panic": pn}),
            FitOut::Err(_, e) => return inconclusive(format!("fit Err: {}", e.chars().take(50).collect::<String>())),
            FitOut::Hang => return inconclusive(HANG_REASON),
            FitOut::Ok(m) => m,
        };

        let w = model.w();
        let b = model.b();
        let (pos, neg, _, _) = model.labels();
        let wn: f64 = w.iter().map(|v| v * v).sum::<f64>().sqrt();
        if !(wn > 1e-6) || w.len() != p {
            return inconclusive("degenerate fit (zero weights)");
        }
        // query rows reaching prescribed logits
        let mut rows: Vec<Vec<f64>> = vec![];
        for t in EXTREME_LOGITS {
            for sgn in [1.0, -1.0] {
                let dir: Vec<f64> = (0..p).map(|_| normal(&mut c.rng)).collect();
                let dw: f64 = dir.iter().zip(&w).map(|(a, b)| a * b).sum();
                if dw.abs() < 1e-3 * wn {
                    continue;
                }
                let s = (sgn * t - b) / dw;
                let row: Vec<f64> = dir.iter().map(|v| fl.round(v * s)).collect();
                if row.iter().all(|v| v.is_finite()) {
                    rows.push(row);
                }
            }
        }
        rows.push(vec![0.0; p]);
        for _ in 0..4 {
            rows.push((0..p).map(|_| fl.round(normal(&mut c.rng))).collect());
        }
        let m = rows.len();
        let xq = Array2::from_shape_fn((m, p), |(i, j)| rows[i][j]);
        let ctxj = json!({"float": fl.name(), "cfg": cfg.describe(), "layout": format!("{layout:?}")});
        let probs = match model.probs(&xq, layout) {
            Ok(v) => v,
            Err(pn) => bail!("C12/binary/predict-panic", {"case": ctxj, "panic": pn}),
        };
        // thresholds: default, both ends, random, and one equal to a returned probability
        let mut thresholds = vec![0.5, 0.0, 1.0, c.rng.gen::<f64>()];
        if let Some(q) = probs.iter().find(|q| **q > 0.0 && **q < 1.0) {
            thresholds.push(*q);
        }
        let mut zmax: f64 = 0.0;
        for i in 0..m {
            let z: f64 = xq.row(i).iter().zip(&w).map(|(a, b)| a * b).sum::<f64>() + b;
            if z.is_finite() {
                zmax = zmax.max(z.abs());
            }
        }
        c.note("max_logit", json!(zmax));
        for (ti, thr) in thresholds.iter().enumerate() {
            if ti > 0 {
                model = match model.set_threshold(*thr) {
                    Ok(mm) => mm,
                    Err(pn) => bail!("C12/binary/set-threshold-panic", {"case": ctxj, "threshold": thr, "panic": pn}),
                };
            }
            let probs = match model.probs(&xq, layout) {
                Ok(v) => v,
                Err(pn) => bail!("C12/binary/predict-panic", {"case": ctxj, "panic": pn}),
            };
            let pred = match model.predict(&xq, layout) {
                Ok(v) => v,
                Err(pn) => bail!("C12/binary/predict-panic", {"case": ctxj, "panic": pn}),
            };
            if let Err(o) = check_binary_probs(c, &xq, &w, b, fl, &probs, &pred, *thr, &pos, &neg, &ctxj) {
                return o;
            }
        }
        // empty batch
        let xe = Array2::<f64>::zeros((0, p));
        match (model.probs(&xe, Layout::C), model.predict(&xe, Layout::C)) {
            (Ok(a), Ok(b)) => ensure!(a.is_empty() && b.is_empty(), "C12/binary/output-shape", {"case": ctxj, "rows": 0, "probabilities": a.len(), "predictions": b.len()}),
            (Err(pn), _) | (_, Err(pn)) => bail!("C12/binary/predict-panic", {"case": ctxj, "empty_batch": true, "panic": pn}),
        }
        held(zmax >= 1e3, format!("{} {} {layout:?} {} w{}", fl.name(), cfg.describe(), ltype_name(lt), small_hash(&format!("{w:?}"))))
    })
}

fn case_prob_multi(c: &mut Case) -> Outcome {
    let fl = if c.rng.gen_bool(0.4) { Fl::F32 } else { Fl::F64 };
    let p = c.rng.gen_range(1..=4usize);
    let k = c.rng.gen_range(2..=6usize);
    let n = c.rng.gen_range(10 * k..=20 * k);
    let f = gen_features(&mut c.rng, n, p, 0, fl);
    let y = gen_multi_labels(&mut c.rng, &f, k, 1.5);
    let cfg = LogCfg {
        alpha: *pick(&mut c.rng, &[0.0009765625, 0.5, 5.0]),
        intercept: c.rng.gen_bool(0.7),
        tol: None,
        max_iter: 200,
        init: None,
    };
    let layout = pick_layout(&mut c.rng);
    let lt = c.rng.gen_range(0..N_MULTI_LTYPES);
    let perm = permutation(&mut c.rng, 6);
    c.note("float", json!(fl.name()));
    c.note("config", json!(cfg.describe()));
    c.note("k", json!(k));
    let ns = NameSpec { lt, swap: false, perm: perm.clone() };
    with_multi_names!(lt, perm, |names| {
        let model = match multi_fit_like(&names[0], fl, &f.x, &y, &ns, &cfg, Layout::C) {
            FitOut::Panic(pn) => bail!("C12/multi/fit-panic", {"panic": pn}),
            FitOut::Err(_, e) => return inconclusive(format!("fit Err: {}", e.chars().take(50).collect::<String>())),
            FitOut::Hang => return inconclusive(HANG_REASON),
            FitOut::Ok(m) => m,
        };

        let (w, wr, wc) = model.w();
        let b = model.b();
        let classes = model.classes();
        let kk = classes.len();
        if wr != p || wc != kk || b.len() != kk {
            bail!("C12/multi/param-shape", {"params": [wr, wc], "intercept_len": b.len(), "features": p, "classes": kk});
        }
        let mut rows: Vec<Vec<f64>> = vec![];
        for t in EXTREME_LOGITS {
            let dir: Vec<f64> = (0..p).map(|_| normal(&mut c.rng)).collect();
            let umax = (0..kk)
                .map(|cc| (0..p).map(|a| dir[a] * w[a * kk + cc]).sum::<f64>().abs())
                .fold(0.0, f64::max);
            if umax < 1e-9 {
                continue;
            }
            let row: Vec<f64> = dir.iter().map(|v| fl.round(v * t / umax)).collect();
            if row.iter().all(|v| v.is_finite()) {
                rows.push(row);
            }
        }
        rows.push(vec![0.0; p]);
        for _ in 0..4 {
            rows.push((0..p).map(|_| fl.round(normal(&mut c.rng))).collect());
        }
        let m = rows.len();
        let xq = Array2::from_shape_fn((m, p), |(i, j)| rows[i][j]);
        let ctxj = json!({"float": fl.name(), "cfg": cfg.describe(), "layout": format!("{layout:?}"), "k": kk});
        let (probs, r, cc) = match model.probs(&xq, layout) {
            Ok(v) => v,
            Err(pn) => bail!("C12/multi/predict-panic", {"case": ctxj, "panic": pn}),
        };
        let pred = match model.predict(&xq, layout) {
            Ok(v) => v,
            Err(pn) => bail!("C12/multi/predict-panic", {"case": ctxj, "panic": pn}),
        };
        if let Err(o) = check_multi_probs(c, &xq, &w, &b, kk, fl, &probs, r, cc, &pred, &classes, &ctxj) {
            return o;
        }
        let xe = Array2::<f64>::zeros((0, p));
        match (model.probs(&xe, Layout::C), model.predict(&xe, Layout::C)) {
            (Ok(a), Ok(b)) => ensure!(a.0.is_empty() && b.is_empty(), "C12/multi/output-shape", {"case": ctxj, "rows": 0}),
            (Err(pn), _) | (_, Err(pn)) => bail!("C12/multi/predict-panic", {"case": ctxj, "empty_batch": true, "panic": pn}),
        }
        held(true, format!("{} {} {layout:?} k{kk} lt{lt} w{}", fl.name(), cfg.describe(), small_hash(&format!("{w:?}"))))
    })
}

// ------------------------------------------------------------------------------- Tweedie

fn poisson(rng: &mut Rng, mu: f64) -> f64 {
    // Knuth; mu is small here
    let l = (-mu).exp();
    let mut k = 0.0;
    let mut pr = 1.0;
    loop {
        pr *= rng.gen::<f64>();
        if pr <= l || k > 500.0 {
            return k;
        }
        k += 1.0;
    }
}

const POWERS: [f64; 9] = [0.0, 1.0, 1.5, 1.2, 1.9, 2.0, 3.0, 2.5, 4.0];

struct GlmData {
    f: Feat,
    y: Vec<f64>,
}

/// targets inside the support of the distribution, means compatible with the link
fn gen_glm_data(rng: &mut Rng, n: usize, p: usize, mode: u32, shrink: f64, power: f64, lk: Lk, fl: Fl, rescale_targets: bool) -> GlmData {
    let mut f = gen_features(rng, n, p, mode, fl);
    if shrink != 1.0 {
        // "normalised" features (as in linfa's diabetes example): small first solver step
        f.x = fl.round_arr(&f.x.mapv(|v| v * shrink));
        for j in 0..p {
            f.scale[j] *= shrink;
            f.offset[j] *= shrink;
        }
    }
    let z = latent(rng, &f, 1, 1.0);
    let centre = *pick(rng, &[0.0, 1.0, 2.0]);
    // the log link is scale free in the targets: now and then they are tiny or large as a whole
    // (continuous distributions only; the f32 range is kept narrower)
    // (only for fits with an intercept, which absorbs the scale; without one a mean of 1e-8 has to be
    // produced by the coefficients alone and the problem is as good as unbounded)
    let tscale = if rescale_targets && lk == Lk::Log && power >= 1.5 && rng.gen_range(0..3) == 0 {
        if fl == Fl::F64 { *pick(rng, &[1e-6, 1e-7, 1e-8, 1e-8, 1e3]) } else { *pick(rng, &[1e-3, 1e2]) }
    } else {
        1.0
    };
    let mut y = Vec::with_capacity(n);
    for i in 0..n {
        let zi = z[[i, 0]];
        let mu = match lk {
            Lk::Log => (0.5 * zi + centre).exp() * tscale,
            Lk::Identity => {
                if power == 0.0 {
                    3.0 * zi + centre
                } else {
                    (8.0 + 1.5 * zi).max(1.0)
                }
            }
            Lk::Logit => sigmoid(zi),
        };
        let v = if power == 0.0 {
            mu + if lk == Lk::Logit { 0.1 } else { 0.5 } * normal(rng)
        } else if power == 1.0 {
            poisson(rng, mu)
        } else if power < 2.0 {
            if rng.gen_bool(0.25) {
                0.0
            } else {
                mu * (0.5 * normal(rng)).exp()
            }
        } else {
            mu * (0.4 * normal(rng)).exp()
        };
        y.push(fl.round(v));
    }
    GlmData { f, y }
}

fn case_tweedie_random(c: &mut Case) -> Outcome {
    let fl = if c.rng.gen_range(0..4) == 0 { Fl::F32 } else { Fl::F64 };
    let power = POWERS[(c.idx % POWERS.len() as u64) as usize];
    let link = [None, Some(Lk::Identity), Some(Lk::Log), Some(Lk::Logit), Some(Lk::Log)][((c.idx / POWERS.len() as u64) % 5) as usize];
    let p = c.rng.gen_range(1..=5usize);
    let n = c.rng.gen_range(p + 6..=c.tier.pick(100, 200));
    let mode = *pick(&mut c.rng, &[0u32, 0, 2, 4, 5]);
    let cfg = GlmCfg {
        power,
        link,
        alpha: *pick(&mut c.rng, &[0.0, 0.125, 1.0, 10.0]),
        intercept: c.rng.gen_bool(0.7),
        tol: match fl {
            Fl::F64 => *pick(&mut c.rng, &[None, Some(1e-6), Some(1e-8)]),
            Fl::F32 => *pick(&mut c.rng, &[None, Some(1e-3)]),
        },
        max_iter: MAX_ITER as usize,
    };
    let lk = cfg.link_eff();
    let shrink = *pick(&mut c.rng, &[1.0, 0.25, 0.0625, 0.0625]);
    let d = gen_glm_data(&mut c.rng, n, p, mode, shrink, power, lk, fl, cfg.intercept);
    let layout = pick_layout(&mut c.rng);
    c.note("feature_scale", json!(shrink));
    c.note("n", json!(n));
    c.note("p", json!(p));
    c.note("power", json!(power));
    c.note("link", json!(format!("{:?}", link)));
    c.note("features", json!(mode_name(mode)));
    c.note("alpha", json!(cfg.alpha));
    c.note("intercept", json!(cfg.intercept));
    c.note("tol", json!(cfg.tol));
    c.note("float", json!(fl.name()));
    c.note("layout", json!(format!("{layout:?}")));
    let ybar = d.y.iter().sum::<f64>() / n as f64;
    if cfg.intercept && ((lk == Lk::Log && ybar <= 0.0) || (lk == Lk::Logit && !(ybar > 0.0 && ybar < 1.0))) {
        return inconclusive("mean(y) outside the link's range (start value undefined)");
    }
    let ctxj = json!({"n": n, "p": p, "power": power, "link": format!("{link:?}"), "alpha": cfg.alpha, "intercept": cfg.intercept,
        "tol": cfg.tol, "float": fl.name(), "layout": format!("{layout:?}"), "features": mode_name(mode)});
    let model = match glm_fit(fl, &d.f.x, &d.y, &cfg, layout) {
        FitOut::Panic(pn) => bail!("C12/tweedie/fit-panic", {"case": ctxj, "panic": pn}),
        FitOut::Hang => {
            c.count("fit-hang-watchdog");
            return inconclusive(HANG_REASON);
        }
        FitOut::Err(kind, e) => {
            ensure!(kind != "range", "C12/tweedie/rejected-in-support", {"case": ctxj, "error": e,
                "y_min": d.y.iter().cloned().fold(f64::INFINITY, f64::min)});
            c.count("tweedie-fit-err");
            return inconclusive(format!("fit Err ({}, {}): {}", power, lk.name(), e.chars().take(40).collect::<String>()));
        }
        FitOut::Ok(m) => m,
    };
    let w = model.w();
    let b = model.b();
    ensure!(w.len() == p, "C12/tweedie/param-shape", {"case": ctxj, "coef_len": w.len()});
    ensure!(w.iter().all(|v| v.is_finite()) && b.is_finite(), "C12/tweedie/non-finite-params", {"case": ctxj, "coef": fvec(&w), "intercept": format!("{b}")});
    ensure!(cfg.intercept || b == 0.0, "C12/tweedie/intercept-without-intercept", {"case": ctxj, "intercept": b});
    let alpha = fl.round(cfg.alpha);
    let e = tweedie_eval(&d.f.x, &d.y, power, lk, alpha, &w, b, cfg.intercept);
    if power >= 1.0 && lk == Lk::Identity {
        let mu_min = (0..n)
            .map(|i| d.f.x.row(i).iter().zip(&w).map(|(a, q)| a * q).sum::<f64>() + b)
            .fold(f64::INFINITY, f64::min);
        if !(mu_min > 0.0) {
            c.count("tweedie-identity-mu-nonpositive");
            return inconclusive("identity link: returned mean not positive, objective undefined");
        }
    }
    if alpha == 0.0 && lk != Lk::Identity && e.zmax > 30.0 {
        return inconclusive("alpha = 0 and diverging linear predictor (no finite minimiser)");
    }
    let jd = judge_grad(&e, cfg.tol_eff(), fl);
    if !(jd.g_inf <= jd.thr) {
        let mut cfg2 = cfg.clone();
        cfg2.max_iter *= 4;
        match glm_fit(fl, &d.f.x, &d.y, &cfg2, layout) {
            FitOut::Ok(m2) => {
                if m2.w() != w || m2.b() != b {
                    c.count("budget-exhausted");
                    return inconclusive("iteration budget exhausted before the solver's own stop");
                }
            }
            FitOut::Hang => {
                c.count("fit-hang-watchdog");
                return inconclusive(HANG_REASON);
            }
            _ => {
                let mut cfg3 = cfg.clone();
                cfg3.max_iter = (cfg.max_iter / 2).max(1);
                match glm_fit(fl, &d.f.x, &d.y, &cfg3, layout) {
                    FitOut::Ok(m3) if m3.w() == w && m3.b() == b => {}
                    FitOut::Hang => return inconclusive(HANG_REASON),
                    _ => {
                        c.count("budget-exhausted");
                        return inconclusive("iteration budget exhausted before the solver's own stop (still moving in the second half of the budget; the longer run errs)");
                    }
                }
            }
        }
        // discriminating predicate of the known line-search limitation: the solver made no move
        // at all (coefficients exactly zero, intercept still link(mean y)) and reported success
        let b_start = if cfg.intercept {
            match lk {
                Lk::Identity => ybar,
                Lk::Log => ybar.ln(),
                Lk::Logit => (ybar / (1.0 - ybar)).ln(),
            }
        } else {
            0.0
        };
        let at_start = w.iter().all(|v| *v == 0.0)
            && if cfg.intercept { (b - b_start).abs() <= 1e-4 * (1.0 + b_start.abs()) } else { b == 0.0 };
        // ... and it could not have moved: along the first search direction (steepest descent from
        // the start point) no admissible step of the line search, sqrt(eps_F) <= s <= 1, gives a
        // sufficient decrease of the documented objective (saturated link / overflow)
        let stp_min = fl.eps().sqrt();
        let gg: f64 = e.grad.iter().map(|v| v * v).sum();
        let mut blocked = true;
        let mut s_try = stp_min;
        while blocked && s_try <= 1.0 {
            let wt: Vec<f64> = (0..p).map(|k| w[k] - s_try * e.grad[k]).collect();
            let bt = if cfg.intercept { b - s_try * e.grad[p] } else { b };
            let jt = tweedie_eval(&d.f.x, &d.y, power, lk, alpha, &wt, bt, cfg.intercept).j;
            if jt.is_finite() && jt <= e.j - 1e-4 * s_try * gg {
                blocked = false;
            }
            s_try *= 1.25;
        }
        if at_start && blocked {
            bail!("C12/tweedie/start-point-returned-unchanged", {"A_ratio": jd.g_inf / jd.thr, "case": ctxj, "grad_inf": jd.g_inf,
                "threshold": jd.thr, "G": e.g_scale, "grad": fvec(&e.grad), "coef": fvec(&w), "intercept": b,
                "start_intercept": b_start, "objective": e.j});
        }
        if let Ok(dir) = std::env::var("C12_DUMP") {
            let _ = std::fs::write(format!("{dir}/tweedie-{}.json", c.idx), serde_json::to_string(&json!({
                "x": d.f.x.rows().into_iter().map(|r| r.to_vec()).collect::<Vec<_>>(), "y": d.y, "alpha": alpha, "power": power, "link": format!("{lk:?}"),
                "intercept": cfg.intercept, "tol": cfg.tol_eff(), "max_iter": cfg.max_iter, "w": fvec(&w), "b": b})).unwrap());
        }
        if blocked && fl != Fl::F64 {
            // same limitation away from the start point: from the returned point no admissible
            // step along steepest descent lowers the documented objective sufficiently
            bail!("C12/tweedie/f32-line-search-blocked-at-returned-point", {"A_ratio": jd.g_inf / jd.thr, "case": ctxj, "grad_inf": jd.g_inf,
                "threshold": jd.thr, "G": e.g_scale, "grad": fvec(&e.grad), "coef": fvec(&w), "intercept": b, "objective": e.j});
        }
        if fl != Fl::F64 {
            if let FitOut::Ok(m64) = glm_fit(Fl::F64, &d.f.x, &d.y, &cfg, layout) {
                let e64 = tweedie_eval(&d.f.x, &d.y, power, lk, cfg.alpha, &m64.w(), m64.b(), cfg.intercept);
                let jd64 = judge_grad(&e64, cfg.tol_eff(), Fl::F64);
                if jd64.g_inf <= jd64.thr {
                    bail!("C12/tweedie/f32-fit-stops-short-where-the-f64-fit-converges", {"A_ratio": jd.g_inf / jd.thr, "case": ctxj, "grad_inf": jd.g_inf,
                        "threshold": jd.thr, "tol": cfg.tol_eff(), "G": e.g_scale, "coef": fvec(&w), "intercept": b, "objective": e.j,
                        "f64_grad_inf": jd64.g_inf, "f64_threshold": jd64.thr});
                }
            }
        }
        bail!("C12/tweedie/not-stationary", {"A_ratio": jd.g_inf / jd.thr, "case": ctxj, "grad_inf": jd.g_inf, "threshold": jd.thr, "tol": cfg.tol_eff(),
            "G": e.g_scale, "grad": fvec(&e.grad), "coef": fvec(&w), "intercept": b, "objective": e.j});
    }
    let tag = fl.name();
    c.resid(&format!("tweedie-grad/threshold[{tag}]"), jd.g_inf / jd.thr);
    c.resid(&format!("tweedie-grad/(10*tol)[{tag}]"), jd.g_inf / (10.0 * cfg.tol_eff()));
    c.resid(&format!("tweedie-grad/G[{tag}]"), jd.g_inf / e.g_scale);
    if jd.g_inf > 10.0 * cfg.tol_eff() {
        c.count(&format!("tweedie-floor-decided[{tag}]"));
        c.resid(&format!("tweedie-grad/sqrt(eps*J*L)-when-above-tol[{tag}]"), jd.g_inf / (fl.eps() * e.jn.abs() * e.l_bound).sqrt());
    }
    c.note("grad/threshold", json!(jd.g_inf / jd.thr));
    if std::env::var("C12_DEBUG").is_ok() && jd.g_inf / e.g_scale > 1e-3 {
        eprintln!("DBG tweedie idx={} {} {ctxj} J={} Jn={} g={} thr={} floor_sum={} floor_stall={} G={} L={} zmax={}",
            c.idx, tag, e.j, e.jn, jd.g_inf, jd.thr, jd.floor_sum, jd.floor_stall, e.g_scale, e.l_bound, e.zmax);
    }

    // predictions: training rows plus rows reaching extreme linear predictors
    let wn: f64 = w.iter().map(|v| v * v).sum::<f64>().sqrt();
    let mut rows: Vec<Vec<f64>> = (0..n.min(20)).map(|i| d.f.x.row(i).to_vec()).collect();
    let lim = if fl == Fl::F32 { 80.0 } else { 700.0 };
    if wn > 1e-6 {
        for t in [30.0, lim, 1e3, 1e6] {
            for sgn in [1.0, -1.0] {
                let dir: Vec<f64> = (0..p).map(|_| normal(&mut c.rng)).collect();
                let dw: f64 = dir.iter().zip(&w).map(|(a, q)| a * q).sum();
                if dw.abs() < 1e-3 * wn {
                    continue;
                }
                let s = (sgn * t - b) / dw;
                let row: Vec<f64> = dir.iter().map(|v| fl.round(v * s)).collect();
                if row.iter().all(|v| v.is_finite()) {
                    rows.push(row);
                }
            }
        }
    }
    let m = rows.len();
    let xq = Array2::from_shape_fn((m, p), |(i, j)| rows[i][j]);
    let pred = match model.predict(&xq, layout) {
        Ok(v) => v,
        Err(pn) => bail!("C12/tweedie/predict-panic", {"case": ctxj, "panic": pn}),
    };
    ensure!(pred.len() == m, "C12/tweedie/output-shape", {"case": ctxj, "rows": m, "predictions": pred.len()});
    for i in 0..m {
        let mut eta = b;
        let mut ea = b.abs();
        for k in 0..p {
            eta += xq[[i, k]] * w[k];
            ea += (xq[[i, k]] * w[k]).abs();
        }
        let de = 4.0 * fl.eps() * (p as f64 + 2.0) * ea;
        let v = pred[i];
        c.evals += 1;
        let moderate = eta.abs() + de <= lim;
        let in_range = match lk {
            Lk::Identity => !v.is_nan() && (!moderate || v.is_finite()),
            Lk::Log => v >= 0.0 && (!moderate || (v > 0.0 && v.is_finite())),
            Lk::Logit => v >= 0.0 && v <= 1.0,
        };
        ensure!(in_range, "C12/tweedie/prediction-out-of-range", {"case": ctxj, "row": i, "prediction": format!("{v}"), "linear_predictor": eta});
        let tiny = if fl == Fl::F32 { 4e-38 } else { 1e-307 };
        let fmax = if fl == Fl::F32 { f32::MAX as f64 } else { f64::MAX };
        let lo = lk.h(eta - de);
        let hi = lk.h(eta + de);
        // beyond the largest finite F the prediction overflows to +-inf
        let lo = if lo >= fmax { fmax } else if lo <= -fmax { f64::NEG_INFINITY } else { lo - 8.0 * fl.eps() * lo.abs() - tiny };
        let hi = if hi >= fmax { f64::INFINITY } else if hi <= -fmax { -fmax } else { hi + 8.0 * fl.eps() * hi.abs() + tiny };
        ensure!(v >= lo && v <= hi, "C12/tweedie/prediction-value", {"case": ctxj, "row": i, "prediction": format!("{v}"),
            "linear_predictor": eta, "admissible": [format!("{lo}"), format!("{hi}")]});
    }
    // non-trivial: the documented start point (zero coefficients, intercept = link(mean y)) is not stationary
    let b0 = if cfg.intercept {
        match lk {
            Lk::Identity => ybar,
            Lk::Log => ybar.ln(),
            Lk::Logit => (ybar / (1.0 - ybar)).ln(),
        }
    } else {
        0.0
    };
    let e0 = tweedie_eval(&d.f.x, &d.y, power, lk, alpha, &vec![0.0; p], b0, cfg.intercept);
    let nontrivial = inf_norm(&e0.grad) > 100.0 * jd.thr;
    held(nontrivial, format!("pw{power} {link:?} n{n} p{p} s{shrink} a{} ic{} tol{:?} {} {layout:?} {}", cfg.alpha, cfg.intercept, cfg.tol, fl.name(), mode_name(mode)))
}

/// targets outside the support must be rejected with an error
fn case_tweedie_reject(c: &mut Case) -> Outcome {
    let fl = if c.rng.gen_bool(0.3) { Fl::F32 } else { Fl::F64 };
    let power = *pick(&mut c.rng, &[1.0, 1.5, 1.2, 2.0, 3.0, 2.5]);
    let link = *pick(&mut c.rng, &[None, Some(Lk::Log), Some(Lk::Identity), Some(Lk::Logit)]);
    let p = c.rng.gen_range(1..=3usize);
    let n = c.rng.gen_range(5..=40usize);
    let cfg = GlmCfg { power, link, alpha: *pick(&mut c.rng, &[0.0, 1.0]), intercept: c.rng.gen_bool(0.5), tol: None, max_iter: 100 };
    let mut d = gen_glm_data(&mut c.rng, n, p, 0, 1.0, power, cfg.link_eff(), fl, false);
    let bad_choices: &[f64] = if power < 2.0 { &[-1e-3, -5.0, -1e-30, f64::NEG_INFINITY] } else { &[0.0, -0.0, -1e-3, -5.0, f64::NEG_INFINITY] };
    let bad = *pick(&mut c.rng, bad_choices);
    let nbad = if c.rng.gen_bool(0.7) { 1 } else { c.rng.gen_range(1..=n) };
    let pos_kind = c.rng.gen_range(0..3);
    for q in 0..nbad {
        let i = match (q, pos_kind) {
            (0, 0) => 0,
            (0, 1) => n - 1,
            _ => c.rng.gen_range(0..n),
        };
        d.y[i] = bad;
    }
    c.note("power", json!(power));
    c.note("bad_value", json!(format!("{bad}")));
    c.note("n_bad", json!(nbad));
    c.note("float", json!(fl.name()));
    let ctxj = json!({"n": n, "power": power, "link": format!("{link:?}"), "bad_value": format!("{bad}"), "n_bad": nbad, "float": fl.name()});
    match glm_fit(fl, &d.f.x, &d.y, &cfg, Layout::C) {
        FitOut::Panic(pn) => bail!("C12/tweedie/reject-panic", {"case": ctxj, "panic": pn}),
        FitOut::Hang => bail!("C12/tweedie/out-of-support-accepted", {"case": ctxj, "why": "not rejected: the solver was started and did not return"}),
        FitOut::Ok(m) => bail!("C12/tweedie/out-of-support-accepted", {"case": ctxj, "coef": fvec(&m.w()), "intercept": format!("{}", m.b())}),
        FitOut::Err(kind, e) => {
            // an error raised by the solver after it was started on the data is not a rejection of
            // the targets (on a tree without the non-finite guard the same input does not return)
            ensure!(kind == "range", "C12/tweedie/out-of-support-not-rejected", {"case": ctxj,
                "why": "the fit failed later with an unrelated error instead of rejecting the targets", "error": e});
            c.count("tweedie-reject-range-error");
            held(true, format!("pw{power} {link:?} bad{bad} x{nbad} pos{pos_kind} {}", fl.name()))
        }
    }
}

/// Targets on the boundary of the support: for 1 <= power < 2 the value 0 is inside the support, so a
/// benign, well-scaled problem containing exact zeros must be fitted, not refused. One case = a batch of
/// small problems; the batch is a violation only if *every* fit fails although the harness's own
/// objective is finite at the documented start point (single failures stay inconclusive).
fn case_tweedie_zero_targets(c: &mut Case) -> Outcome {
    let fl = if c.rng.gen_bool(0.3) { Fl::F32 } else { Fl::F64 };
    let power = *pick(&mut c.rng, &[1.0, 1.2, 1.5, 1.8, 1.99]);
    let intercept = c.rng.gen_bool(0.7);
    let cfg = GlmCfg { power, link: Some(Lk::Log), alpha: *pick(&mut c.rng, &[0.1, 1.0]), intercept, tol: None, max_iter: 200 };
    let mut errors: Vec<String> = vec![];
    let mut ok = 0usize;
    let mut tried = 0usize;
    for _ in 0..6 {
        let n = c.rng.gen_range(12..=40usize);
        let p = c.rng.gen_range(1..=2usize);
        let x = Array2::from_shape_fn((n, p), |_| {
            let v: f64 = c.rng.gen_range(-1.0..1.0);
            if fl == Fl::F32 { (v as f32) as f64 } else { v }
        });
        let w: Vec<f64> = (0..p).map(|_| c.rng.gen_range(-0.5..0.5)).collect();
        let mut y: Vec<f64> = (0..n)
            .map(|i| {
                let eta: f64 = (0..p).map(|j| w[j] * x[[i, j]]).sum::<f64>() + 0.3;
                let v = eta.exp() * c.rng.gen_range(0.5..1.5);
                if fl == Fl::F32 { (v as f32) as f64 } else { v }
            })
            .collect();
        // exact zeros, at least one and at most a third of the targets
        let nz = c.rng.gen_range(1..=(n / 3).max(1));
        for _ in 0..nz {
            let i = c.rng.gen_range(0..n);
            y[i] = 0.0;
        }
        // the harness's objective at the documented start point (w = 0, b = link(mean y)) is finite
        let b0 = if intercept { (y.iter().sum::<f64>() / n as f64).ln() } else { 0.0 };
        let e0 = tweedie_eval(&x, &y, power, Lk::Log, cfg.alpha, &vec![0.0; p], b0, intercept);
        if !e0.j.is_finite() {
            continue;
        }
        tried += 1;
        match glm_fit(fl, &x, &y, &cfg, Layout::C) {
            FitOut::Ok(_) => ok += 1,
            FitOut::Err(kind, e) => errors.push(format!("{kind}: {e}")),
            FitOut::Panic(pn) => bail!("C12/tweedie/panic-on-in-support-zero-target", {"power": power, "float": fl.name(), "panic": pn}),
            FitOut::Hang => return inconclusive(HANG_REASON),
        }
    }
    c.note("power", json!(power));
    c.note("float", json!(fl.name()));
    c.note("fits_ok", json!(ok));
    c.note("fits_tried", json!(tried));
    c.evals = tried.max(1) as u64;
    if tried < 3 {
        return inconclusive("fewer than three problems with a finite start objective");
    }
    ensure!(ok > 0, "C12/tweedie/in-support-zero-targets-never-fitted",
        {"power": power, "float": fl.name(), "intercept": intercept, "problems": tried, "errors": errors.iter().take(3).collect::<Vec<_>>()});
    held(true, format!("zero-targets pw{power} {} ic{intercept} ok{ok}/{tried} {}", fl.name(), c.idx))
}

// ------------------------------------------------------------------- oracle self-check

/// the analytic gradients used as oracle agree with central differences of the objectives
fn case_selfcheck(c: &mut Case) -> Outcome {
    let which = c.idx % 3;
    let p = c.rng.gen_range(1..=4usize);
    let n = c.rng.gen_range(5..=30usize);
    let f = gen_features(&mut c.rng, n, p, 0, Fl::F64);
    let intercept = c.rng.gen_bool(0.6);
    let alpha = *pick(&mut c.rng, &[0.0, 0.5, 3.0]);
    let d = p + intercept as usize;
    let check = |th: &[f64], fun: &dyn Fn(&[f64]) -> ObjEval| -> (f64, f64) {
        let e = fun(th);
        let mut worst: f64 = 0.0;
        for q in 0..th.len() {
            let h = 1e-6 * (1.0 + th[q].abs());
            let mut a = th.to_vec();
            a[q] += h;
            let mut bb = th.to_vec();
            bb[q] -= h;
            let num = (fun(&a).j - fun(&bb).j) / (2.0 * h);
            worst = worst.max((num - e.grad[q]).abs());
        }
        (worst, inf_norm(&e.grad) + 1e-3 * e.g_scale)
    };
    let (err, scale, what) = match which {
        0 => {
            let t: Vec<f64> = (0..n).map(|_| if c.rng.gen_bool(0.5) { 1.0 } else { -1.0 }).collect();
            let th: Vec<f64> = (0..d).map(|_| normal(&mut c.rng)).collect();
            let (e, s) = check(&th, &|th| binary_eval(&f.x, &t, alpha, &th[..p], if intercept { th[p] } else { 0.0 }, intercept));
            (e, s, "binary".to_string())
        }
        1 => {
            let k = c.rng.gen_range(2..=5usize);
            let y: Vec<usize> = (0..n).map(|_| c.rng.gen_range(0..k)).collect();
            let th: Vec<f64> = (0..d * k).map(|_| normal(&mut c.rng)).collect();
            let zero = vec![0.0; k];
            let (e, s) = check(&th, &|th| multi_eval(&f.x, &y, k, alpha, &th[..p * k], if intercept { &th[p * k..] } else { &zero }, intercept));
            (e, s, format!("multi k={k}"))
        }
        _ => {
            let power = POWERS[((c.idx / 3) % POWERS.len() as u64) as usize];
            let lk = [Lk::Identity, Lk::Log, Lk::Logit][((c.idx / 27) % 3) as usize];
            let y: Vec<f64> = (0..n)
                .map(|_| if power == 0.0 { normal(&mut c.rng) } else if power < 2.0 && c.rng.gen_bool(0.2) { 0.0 } else { uniform(&mut c.rng, 0.2, 3.0) })
                .collect();
            let mut th: Vec<f64> = (0..d).map(|_| 0.3 * normal(&mut c.rng)).collect();
            if lk == Lk::Identity {
                // keep the mean positive
                if intercept {
                    th[p] = 6.0;
                } else {
                    return inconclusive("identity link without intercept: mean sign not controlled");
                }
            }
            let (e, s) = check(&th, &|th| tweedie_eval(&f.x, &y, power, lk, alpha, &th[..p], if intercept { th[p] } else { 0.0 }, intercept));
            (e, s, format!("tweedie p={power} {}", lk.name()))
        }
    };
    c.resid("oracle-selfcheck-rel", err / scale);
    ensure!(err <= 1e-5 * scale, "C12/harness/oracle-selfcheck", {"what": what, "abs_err": err, "scale": scale});
    held(true, format!("{what} n{n} p{p} a{alpha} ic{intercept}"))
}

pub fn run(ctx: &Ctx) {
    if std::env::var("C12_WORKER").is_ok() {
        worker_main();
    }
    ctx.set_rule("a case is one fit (or one batch of probability/prediction queries) judged by the harness's own gradient of the documented objective; non-trivial = both classes / in-support targets present and the solver's start point violates the stationarity threshold by more than 100x (the solver had to move); distinct = (shape, feature kind, configuration, float type, layout, label type, hash of the labels)");
    ctx.assume("stationarity threshold: |grad|_inf <= 10*tol + 64*eps_F*G + max(c*sqrt(eps_F*|J|*L), rho*G), c = 64 (f64) / 16 (f32), rho = 1e-4 (f64) / 1e-3 (f32), with G = sum_i |x~_i|_inf (times the residual magnitude for GLMs) + alpha|w|_inf and L an upper bound of the Hessian norm; the last term is the gradient that remains when the cost cannot decrease measurably in F (L-BFGS stops on its cost criterion)");
    ctx.assume("alpha = 0: cases without a finite minimiser (harness Newton iteration diverges: separable or quasi-separable data) are outside the quantifier and inconclusive");
    ctx.assume("a fit that returns Err is inconclusive unless the error is one of the hyper-parameter guard on an in-domain configuration (violation); a residual above the threshold that changes when the iteration budget is quadrupled (or, when the longer run errs, between half and full budget) is an exhausted budget, inconclusive");
    ctx.assume("GLM targets are of order 1 except for log-link fits with an intercept and power >= 1.5, a third of which have all targets scaled to 1e-6..1e-8 or 1e3; the same scaling without an intercept is not generated (ill-posed: the solver stops early on the unchanged tree)");
    ctx.assume("f32 fits that fail the stationarity test are reported as violations only if the f64 fit of the same problem fails too; otherwise they are filed under the open f32 findings");
    ctx.assume("probabilities are compared with sigma / softmax of the logits recomputed in f64, allowing the logits an error of 4*eps_F*(p+2)*sum|terms|");
    let q = ctx.tier == Tier::Quick;
    // debugging aid: C12_ONLY=<family substring> runs a subset (never set by the harness driver)
    let only = std::env::var("C12_ONLY").ok();
    let scale: u64 = std::env::var("C12_DIV").ok().and_then(|s| s.parse().ok()).unwrap_or(1);
    macro_rules! fam {
        ($name:expr, $n:expr, $f:expr) => {
            if only.as_deref().map_or(true, |o| $name.contains(o)) {
                ctx.family($name, ($n as u64 / scale).max(1), $f);
            }
        };
    }
    fam!("oracle-selfcheck", ctx.tier.pick(162, 486), case_selfcheck);
    fam!("binary-enum", enum_binary_count(), case_binary_enum);
    fam!("multi-enum", enum_multi_count(), case_multi_enum);
    if ctx.replay.is_none() {
        ctx.set_exhaustive("binary: all non-constant labellings of 6 grid points x intercept x alpha{0,0.5,5}", true);
        ctx.set_exhaustive("multinomial: all labellings of 5 grid points over 3 labels x intercept x alpha{0,0.5}", true);
    }
    fam!("binary-random", if q { 600 } else { 20000 }, case_binary_random);
    fam!("binary-metamorphic", if q { 60 } else { 1500 }, case_binary_metamorphic);
    fam!("multi-random", if q { 400 } else { 8000 }, case_multi_random);
    fam!("multi-metamorphic", if q { 40 } else { 800 }, case_multi_metamorphic);
    fam!("prob-binary", if q { 150 } else { 3000 }, case_prob_binary);
    fam!("prob-multi", if q { 150 } else { 3000 }, case_prob_multi);
    fam!("tweedie-random", if q { 900 } else { 27000 }, case_tweedie_random);
    fam!("tweedie-reject", if q { 200 } else { 4000 }, case_tweedie_reject);
    fam!("tweedie-zero-targets", if q { 120 } else { 1500 }, case_tweedie_zero_targets);
}
