//! C11 — least-squares estimators return a minimiser of their documented objective.
//!
//! Oracles (all in f64 on the exactly promoted data the estimator saw, written from the
//! definition of the objective, not from linfa's solver):
//!
//! * OLS: residual orthogonal to every column of [X, 1]; SSE not above the SSE of the harness's own
//!   Householder-QR solution; random perturbations never lower the SSE.
//! * elastic net / lasso / ridge / multi-task: J(W,b) = ||Y-XW-1b'||^2/(2n) + lam*(a*sum_j||W_j||_2 +
//!   (1-a)/2*||W||_F^2). For every feature (row of W) and for the intercept the exact one-dimensional
//!   (block) minimiser is computed in closed form and the available decrease must not exceed
//!   reported_gap/n + floor (for l1 = 0, where linfa's gap degenerates to the primal value, the
//!   bound is the one implied by the configured tolerance); the joint suboptimality against the
//!   harness's own solution (certified by its own dual bound) must not exceed the reported gap
//!   either; rows whose correlation is under the l1 threshold must be exactly zero; the gap must
//!   be non-negative; predict must equal XW+b.
use crate::fw::*;
use crate::gen;
use linfa::traits::{Fit, Predict};
use linfa::DatasetBase;
use linfa_elasticnet::{ElasticNet, MultiTaskElasticNet};
use linfa_linear::LinearRegression;
use ndarray::{s, Array1, Array2, ArrayView1, ArrayView2, Axis, ShapeBuilder};
use rand::Rng as _;
use serde_json::{json, Value};

/// the one defect of the unchanged tree that is classified by discriminating predicates
/// (DESIGN §6 item 7): with_intercept, intercept == mean(y), all coefficient directions optimal
/// for that intercept, returned point optimal for the problem with the intercept frozen there,
/// only the intercept direction improves.
const SIG_INTERCEPT_FROZEN: &str = "C11/intercept/frozen-at-target-mean-on-uncentred-features";

// ------------------------------------------------------------------------------------------------
// float plumbing

fn to64<F: linfa::Float>(v: F) -> f64 {
    num_traits::ToPrimitive::to_f64(&v).unwrap_or(f64::NAN)
}
fn round_f<F: linfa::Float>(v: f64) -> f64 {
    to64(F::cast(v))
}
fn eps_of<F: linfa::Float>() -> f64 {
    to64(F::epsilon())
}

/// memory layouts of the records handed to linfa
/// 0 C-order owned, 1 F-order, 2 every second row of a taller array, 3 every second column of a
/// wider array, 4 rows reversed (negative stride)
const NLAYOUT: u8 = 5;

/// noise floor of objective-level comparisons: FLOOR_C * eps_F * S, S = magnitude of the summands of J
const FLOOR_C: f64 = 4096.0;

fn hold_x<F: linfa::Float>(x: &Array2<f64>, layout: u8) -> Array2<F> {
    let (n, p) = x.dim();
    match layout {
        1 => Array2::from_shape_fn((n, p).f(), |(i, j)| F::cast(x[[i, j]])),
        2 => Array2::from_shape_fn((2 * n, p), |(i, j)| {
            if i % 2 == 0 {
                F::cast(x[[i / 2, j]])
            } else {
                F::nan()
            }
        }),
        3 => Array2::from_shape_fn((n, 2 * p), |(i, j)| {
            if j % 2 == 0 {
                F::cast(x[[i, j / 2]])
            } else {
                F::nan()
            }
        }),
        4 => Array2::from_shape_fn((n, p), |(i, j)| F::cast(x[[n - 1 - i, j]])),
        _ => Array2::from_shape_fn((n, p), |(i, j)| F::cast(x[[i, j]])),
    }
}
fn view_x<F: linfa::Float>(h: &Array2<F>, layout: u8) -> ArrayView2<'_, F> {
    match layout {
        2 => h.slice(s![..;2, ..]),
        3 => h.slice(s![.., ..;2]),
        4 => h.slice(s![..;-1, ..]),
        _ => h.view(),
    }
}
/// targets follow the row layout of the records
fn hold_y<F: linfa::Float>(y: &Array2<f64>, layout: u8) -> Array2<F> {
    let (n, t) = y.dim();
    match layout {
        1 => Array2::from_shape_fn((n, t).f(), |(i, j)| F::cast(y[[i, j]])),
        2 => Array2::from_shape_fn((2 * n, t), |(i, j)| {
            if i % 2 == 0 {
                F::cast(y[[i / 2, j]])
            } else {
                F::nan()
            }
        }),
        4 => Array2::from_shape_fn((n, t), |(i, j)| F::cast(y[[n - 1 - i, j]])),
        _ => Array2::from_shape_fn((n, t), |(i, j)| F::cast(y[[i, j]])),
    }
}
fn view_y<F: linfa::Float>(h: &Array2<F>, layout: u8) -> ArrayView2<'_, F> {
    match layout {
        2 => h.slice(s![..;2, ..]),
        4 => h.slice(s![..;-1, ..]),
        _ => h.view(),
    }
}

// ------------------------------------------------------------------------------------------------
// calling linfa

#[derive(Clone, Debug)]
struct Cfg {
    lam: f64,
    alpha: f64,
    intercept: bool,
    tol: f64,
    max_iter: u32,
}

struct FitOut {
    w: Array2<f64>, // p x T
    b: Array1<f64>, // T
    gap: f64,
    n_steps: u32,
    pred: Array2<f64>, // n x T
}

type Fitted = Result<Result<FitOut, String>, String>; // outer Err = panic, inner Err = linfa error

fn fit_single<F: linfa::Float>(x: &Array2<f64>, y: &Array2<f64>, cfg: &Cfg, layout: u8) -> Fitted {
    let hx = hold_x::<F>(x, layout);
    let hy = hold_y::<F>(y, layout);
    let params = ElasticNet::<F>::params()
        .penalty(F::cast(cfg.lam))
        .l1_ratio(F::cast(cfg.alpha))
        .with_intercept(cfg.intercept)
        .tolerance(F::cast(cfg.tol))
        .max_iterations(cfg.max_iter);
    guarded(|| {
        let xv = view_x(&hx, layout);
        let yv2 = view_y(&hy, layout);
        let yv: ArrayView1<F> = yv2.column(0);
        let conv = |m: ElasticNet<F>| {
            let pred = m.predict(&xv);
            FitOut {
                w: Array2::from_shape_fn((m.hyperplane().len(), 1), |(j, _)| to64(m.hyperplane()[j])),
                b: Array1::from_elem(1, to64(m.intercept())),
                gap: to64(m.duality_gap()),
                n_steps: m.n_steps(),
                pred: Array2::from_shape_fn((pred.len(), 1), |(i, _)| to64(pred[i])),
            }
        };
        if layout == 0 {
            // owned dataset
            let ds = DatasetBase::new(xv.to_owned(), yv.to_owned());
            params.fit(&ds).map(conv).map_err(|e| e.to_string())
        } else {
            let ds = DatasetBase::new(xv, yv);
            params.fit(&ds).map(conv).map_err(|e| e.to_string())
        }
    })
}

fn fit_multi<F: linfa::Float>(x: &Array2<f64>, y: &Array2<f64>, cfg: &Cfg, layout: u8) -> Fitted {
    let hx = hold_x::<F>(x, layout);
    let hy = hold_y::<F>(y, layout);
    let params = MultiTaskElasticNet::<F>::params()
        .penalty(F::cast(cfg.lam))
        .l1_ratio(F::cast(cfg.alpha))
        .with_intercept(cfg.intercept)
        .tolerance(F::cast(cfg.tol))
        .max_iterations(cfg.max_iter);
    guarded(|| {
        let xv = view_x(&hx, layout);
        let yv = view_y(&hy, layout);
        let conv = |m: MultiTaskElasticNet<F>| {
            let pred = m.predict(&xv);
            FitOut {
                w: m.hyperplane().mapv(to64),
                b: m.intercept().mapv(to64),
                gap: to64(m.duality_gap()),
                n_steps: m.n_steps(),
                pred: pred.mapv(to64),
            }
        };
        if layout == 0 {
            let ds = DatasetBase::new(xv.to_owned(), yv.to_owned());
            params.fit(&ds).map(conv).map_err(|e| e.to_string())
        } else {
            let ds = DatasetBase::new(xv, yv);
            params.fit(&ds).map(conv).map_err(|e| e.to_string())
        }
    })
}

struct OlsOut {
    w: Array1<f64>,
    b: f64,
    pred: Array1<f64>,
}

fn fit_ols<F: linfa::Float>(
    x: &Array2<f64>,
    y: &Array2<f64>,
    intercept: bool,
    layout: u8,
) -> Result<Result<OlsOut, String>, String> {
    let hx = hold_x::<F>(x, layout);
    let hy = hold_y::<F>(y, layout);
    let lr = LinearRegression::new().with_intercept(intercept);
    guarded(|| {
        let xv = view_x(&hx, layout);
        let yv2 = view_y(&hy, layout);
        let yv: ArrayView1<F> = yv2.column(0);
        let conv = |m: linfa_linear::FittedLinearRegression<F>| {
            let pred = m.predict(&xv);
            OlsOut {
                w: m.params().mapv(to64),
                b: to64(m.intercept()),
                pred: pred.mapv(to64),
            }
        };
        if layout == 0 {
            let ds = DatasetBase::new(xv.to_owned(), yv.to_owned());
            lr.fit(&ds).map(conv).map_err(|e| e.to_string())
        } else {
            let ds = DatasetBase::new(xv, yv);
            lr.fit(&ds).map(conv).map_err(|e| e.to_string())
        }
    })
}

// ------------------------------------------------------------------------------------------------
// independent numerics (f64)

/// Least squares min ||A z - B||_F by Householder QR after scaling every column of A to unit
/// norm. Returns (z, smallest |R_jj| of the equilibrated matrix) — the latter is the harness's
/// rank test. None if A has a zero column or fewer rows than columns.
fn lstsq(a: &Array2<f64>, b: &Array2<f64>) -> Option<(Array2<f64>, f64)> {
    let (m, k) = a.dim();
    let t = b.ncols();
    if m < k || b.nrows() != m {
        return None;
    }
    let mut d = vec![0.0; k];
    for j in 0..k {
        let mx = a.column(j).iter().fold(0.0f64, |acc, v| acc.max(v.abs()));
        if !(mx > 0.0) || !mx.is_finite() {
            return None;
        }
        let s: f64 = a.column(j).iter().map(|v| (v / mx) * (v / mx)).sum::<f64>();
        d[j] = mx * s.sqrt();
    }
    let mut q = Array2::from_shape_fn((m, k), |(i, j)| a[[i, j]] / d[j]);
    let mut rhs = b.clone();
    let mut rdiag = vec![0.0; k];
    for j in 0..k {
        let mut nrm = 0.0;
        for i in j..m {
            nrm += q[[i, j]] * q[[i, j]];
        }
        let nrm = nrm.sqrt();
        if nrm == 0.0 {
            rdiag[j] = 0.0;
            continue;
        }
        let alpha = if q[[j, j]] > 0.0 { -nrm } else { nrm };
        // v = x - alpha e1
        let mut v = vec![0.0; m - j];
        for i in j..m {
            v[i - j] = q[[i, j]];
        }
        v[0] -= alpha;
        let vnorm2: f64 = v.iter().map(|z| z * z).sum();
        rdiag[j] = alpha;
        if vnorm2 > 0.0 {
            for c in j..k {
                let mut dot = 0.0;
                for i in j..m {
                    dot += v[i - j] * q[[i, c]];
                }
                let f = 2.0 * dot / vnorm2;
                for i in j..m {
                    q[[i, c]] -= f * v[i - j];
                }
            }
            for c in 0..t {
                let mut dot = 0.0;
                for i in j..m {
                    dot += v[i - j] * rhs[[i, c]];
                }
                let f = 2.0 * dot / vnorm2;
                for i in j..m {
                    rhs[[i, c]] -= f * v[i - j];
                }
            }
        }
    }
    let minr = rdiag.iter().fold(f64::INFINITY, |acc, v| acc.min(v.abs()));
    if !(minr > 0.0) {
        return Some((Array2::zeros((k, t)), 0.0));
    }
    let mut z = Array2::<f64>::zeros((k, t));
    for c in 0..t {
        for j in (0..k).rev() {
            let mut sacc = rhs[[j, c]];
            for l in (j + 1)..k {
                sacc -= q[[j, l]] * z[[l, c]];
            }
            z[[j, c]] = sacc / q[[j, j]];
        }
    }
    for j in 0..k {
        for c in 0..t {
            z[[j, c]] /= d[j];
        }
    }
    Some((z, minr))
}

fn col_means(x: &Array2<f64>) -> Array1<f64> {
    let n = x.nrows() as f64;
    Array1::from_iter(x.columns().into_iter().map(|c| c.sum() / n))
}

fn row_norm(w: &Array2<f64>, j: usize) -> f64 {
    w.row(j).iter().map(|v| v * v).sum::<f64>().sqrt()
}

/// the documented objective (per-sample scaling 1/(2n))
fn objective(x: &Array2<f64>, y: &Array2<f64>, w: &Array2<f64>, b: &Array1<f64>, lam: f64, alpha: f64) -> f64 {
    let n = x.nrows() as f64;
    let r = y - &x.dot(w) - b;
    let sse: f64 = r.iter().map(|v| v * v).sum();
    let l21: f64 = (0..w.nrows()).map(|j| row_norm(w, j)).sum();
    let fro: f64 = w.iter().map(|v| v * v).sum();
    sse / (2.0 * n) + lam * (alpha * l21 + (1.0 - alpha) / 2.0 * fro)
}

struct RefSol {
    w: Array2<f64>,
    b: Array1<f64>,
    primal: f64,
    /// certified lower bound on the optimum (== primal up to rounding for l1 = 0)
    lower: f64,
    sweeps: usize,
}

/// The harness's own minimiser of J jointly in (W, b) (b only when `intercept`): features and
/// targets are centred (the optimal intercept is mean(y) - mean(x)'W for any W), then cyclic block
/// coordinate descent with block soft-thresholding, stopped by its own duality gap; l1 = 0 is
/// solved directly by QR on the ridge-augmented system. `start` is only a warm start.
fn ref_solve(
    x: &Array2<f64>,
    y: &Array2<f64>,
    lam: f64,
    alpha: f64,
    intercept: bool,
    start: Option<&Array2<f64>>,
    max_sweeps: usize,
) -> Option<RefSol> {
    let (n, p) = x.dim();
    let t = y.ncols();
    let nf = n as f64;
    let l1 = lam * alpha;
    let l2 = lam * (1.0 - alpha);
    let (xm, ym) = if intercept {
        (col_means(x), col_means(y))
    } else {
        (Array1::zeros(p), Array1::zeros(t))
    };
    let xc = x - &xm;
    let yc = y - &ym;
    let finish = |w: Array2<f64>, lower: Option<f64>, sweeps: usize| {
        let b = if intercept { &ym - &xm.dot(&w) } else { Array1::zeros(t) };
        let primal = objective(x, y, &w, &b, lam, alpha);
        RefSol {
            lower: lower.unwrap_or(primal).min(primal),
            primal,
            w,
            b,
            sweeps,
        }
    };
    if l1 == 0.0 {
        // [Xc; sqrt(n l2) I] W = [Yc; 0]
        let extra = if l2 > 0.0 { p } else { 0 };
        let mut a = Array2::<f64>::zeros((n + extra, p));
        a.slice_mut(s![..n, ..]).assign(&xc);
        for j in 0..extra {
            a[[n + j, j]] = (nf * l2).sqrt();
        }
        let mut rhs = Array2::<f64>::zeros((n + extra, t));
        rhs.slice_mut(s![..n, ..]).assign(&yc);
        let (w, minr) = lstsq(&a, &rhs)?;
        if minr < 1e-10 {
            return None;
        }
        return Some(finish(w, None, 0));
    }
    let cn: Vec<f64> = (0..p).map(|j| xc.column(j).dot(&xc.column(j)) / nf).collect();
    let mut w = match start {
        Some(s0) if s0.dim() == (p, t) && s0.iter().all(|v| v.is_finite()) => s0.clone(),
        _ => Array2::zeros((p, t)),
    };
    let mut r = &yc - &xc.dot(&w);
    let ysq: f64 = yc.iter().map(|v| v * v).sum();
    let mut sweeps = 0;
    let mut best_lower = f64::NEG_INFINITY;
    let mut best_gap = f64::INFINITY;
    let mut best_at = 0usize;
    loop {
        for _ in 0..4 {
            for j in 0..p {
                let c = cn[j] + l2;
                if c == 0.0 {
                    // zero column without ridge: only the l1 term depends on it
                    for k in 0..t {
                        w[[j, k]] = 0.0;
                    }
                    continue;
                }
                let xj = xc.column(j);
                let mut rho = vec![0.0; t];
                let mut rn = 0.0;
                for k in 0..t {
                    rho[k] = xj.dot(&r.column(k)) / nf + cn[j] * w[[j, k]];
                    rn += rho[k] * rho[k];
                }
                let rn = rn.sqrt();
                let shrink = if rn > l1 { (1.0 - l1 / rn) / c } else { 0.0 };
                for k in 0..t {
                    let new = shrink * rho[k];
                    let dlt = new - w[[j, k]];
                    if dlt != 0.0 {
                        r.column_mut(k).scaled_add(-dlt, &xj);
                        w[[j, k]] = new;
                    }
                }
            }
            sweeps += 1;
        }
        // refresh the residual (no drift) and evaluate the duality gap in n-scaled units
        r = &yc - &xc.dot(&w);
        let rsq: f64 = r.iter().map(|v| v * v).sum();
        let l21: f64 = (0..p).map(|j| row_norm(&w, j)).sum();
        let fro: f64 = w.iter().map(|v| v * v).sum();
        let primal = 0.5 * rsq + nf * l1 * l21 + 0.5 * nf * l2 * fro;
        // dual point nu = s * [R; -sqrt(n l2) W], feasibility: ||Xc_j' R - n l2 W_j|| * s <= n l1
        let mut dn: f64 = 0.0;
        for j in 0..p {
            let mut acc = 0.0;
            for k in 0..t {
                let v = xc.column(j).dot(&r.column(k)) - nf * l2 * w[[j, k]];
                acc += v * v;
            }
            dn = dn.max(acc.sqrt());
        }
        let sc = if dn > nf * l1 { nf * l1 / dn } else { 1.0 };
        // D(nu) = 1/2||Y~||^2 - 1/2||Y~ - nu||^2, Y~ = [Yc; 0]
        let mut dist = 0.0;
        for (yy, rr) in yc.iter().zip(r.iter()) {
            dist += (yy - sc * rr) * (yy - sc * rr);
        }
        dist += sc * sc * nf * l2 * fro;
        let dual = 0.5 * ysq - 0.5 * dist;
        best_lower = best_lower.max(dual / nf);
        let gap = primal - dual;
        if gap < best_gap * 0.9 {
            best_gap = gap;
            best_at = sweeps;
        }
        // converged, out of budget, or stalled at the rounding level of the gap itself
        if gap <= 1e-13 * (0.5 * ysq).max(primal).max(1e-300) || sweeps >= max_sweeps || sweeps - best_at > 400 {
            return Some(finish(w, Some(best_lower), sweeps));
        }
    }
}

/// Number of cyclic coordinate-descent sweeps an exact solver needs on the smooth (l1 = 0)
/// problem until its remaining suboptimality J(z_k) - J* is at most `thr` (J* from the harness's
/// QR solution, so slow convergence cannot masquerade as convergence) — used only to decide
/// whether a budget-limited run is in the property's domain ("budgets large enough to
/// converge"). `with_ones` adds an unpenalised constant column (intercept as a coordinate).
fn smooth_cd_sweeps(
    x: &Array2<f64>,
    y: &Array2<f64>,
    l2: f64,
    with_ones: bool,
    ones_start: Option<&Array1<f64>>,
    thr: f64,
    max_sweeps: usize,
) -> Option<usize> {
    let (n, p) = x.dim();
    let t = y.ncols();
    let nf = n as f64;
    let k = p + with_ones as usize;
    let mut a = Array2::<f64>::ones((n, k));
    a.slice_mut(s![.., ..p]).assign(x);
    // exact optimum of the same problem: [A; sqrt(n l2) I_p 0] z = [y; 0]
    let extra = if l2 > 0.0 { p } else { 0 };
    let mut aa = Array2::<f64>::zeros((n + extra, k));
    aa.slice_mut(s![..n, ..]).assign(&a);
    for j in 0..extra {
        aa[[n + j, j]] = (nf * l2).sqrt();
    }
    let mut rhs = Array2::<f64>::zeros((n + extra, t));
    rhs.slice_mut(s![..n, ..]).assign(y);
    let (zstar, minr) = lstsq(&aa, &rhs)?;
    if minr < 1e-10 {
        return None;
    }
    // Gram form: H = A'A/n + l2*diag(1..1,0), q = A'y/n ; J(z) - J* = 1/2 (z-z*)' H (z-z*)
    let mut h = a.t().dot(&a) / nf;
    for j in 0..p {
        h[[j, j]] += l2;
    }
    let q = a.t().dot(y) / nf;
    let mut z = Array2::<f64>::zeros((k, t));
    if let (true, Some(b0)) = (with_ones, ones_start) {
        z.row_mut(p).assign(b0);
    }
    for sweep in 1..=max_sweeps {
        for j in 0..k {
            let c = h[[j, j]];
            if c == 0.0 {
                continue;
            }
            for col in 0..t {
                let mut grad = -q[[j, col]];
                for l in 0..k {
                    grad += h[[j, l]] * z[[l, col]];
                }
                z[[j, col]] -= grad / c;
            }
        }
        if sweep % 8 == 0 || sweep == max_sweeps {
            let e = &z - &zstar;
            let he = h.dot(&e);
            let sub: f64 = 0.5 * e.iter().zip(he.iter()).map(|(u, v)| u * v).sum::<f64>();
            if sub <= thr {
                return Some(sweep);
            }
        }
    }
    None
}

/// Sweeps an exact cyclic block coordinate descent (cold start) needs until J <= `target` on
/// the design `xa` whose columns flagged in `pen` are penalised (an unpenalised constant column
/// models an intercept that is one of the coordinates). Only used to decide whether an exhausted
/// iteration budget was ample.
fn bcd_sweeps_until(
    xa: &Array2<f64>,
    pen: &[bool],
    y: &Array2<f64>,
    l1: f64,
    l2: f64,
    target: f64,
    max_sweeps: usize,
) -> Option<usize> {
    let (n, k) = xa.dim();
    let t = y.ncols();
    let nf = n as f64;
    let cn: Vec<f64> = (0..k).map(|j| xa.column(j).dot(&xa.column(j)) / nf).collect();
    let mut z = Array2::<f64>::zeros((k, t));
    let mut r = y.clone();
    for sweep in 1..=max_sweeps {
        for j in 0..k {
            let (a1, a2) = if pen[j] { (l1, l2) } else { (0.0, 0.0) };
            let c = cn[j] + a2;
            if c == 0.0 {
                continue;
            }
            let xj = xa.column(j);
            let mut rho = vec![0.0; t];
            let mut rn = 0.0;
            for col in 0..t {
                rho[col] = xj.dot(&r.column(col)) / nf + cn[j] * z[[j, col]];
                rn += rho[col] * rho[col];
            }
            let rn = rn.sqrt();
            let shrink = if rn > a1 { (1.0 - a1 / rn) / c } else { 0.0 };
            for col in 0..t {
                let new = shrink * rho[col];
                let dlt = new - z[[j, col]];
                if dlt != 0.0 {
                    r.column_mut(col).scaled_add(-dlt, &xj);
                    z[[j, col]] = new;
                }
            }
        }
        let mut jv = r.iter().map(|v| v * v).sum::<f64>() / (2.0 * nf);
        for j in 0..k {
            if pen[j] {
                let nr = row_norm(&z, j);
                jv += l1 * nr + 0.5 * l2 * nr * nr;
            }
        }
        if jv <= target {
            return Some(sweep);
        }
    }
    None
}

fn small_hash(x: &Array2<f64>, y: &Array2<f64>) -> u64 {
    let mut h: u64 = 0xcbf29ce484222325;
    for v in x.iter().chain(y.iter()) {
        h ^= v.to_bits();
        h = h.wrapping_mul(0x100000001b3);
    }
    h & 0xffff_ffff
}

// ------------------------------------------------------------------------------------------------
// judging an elastic-net fit

struct Judged {
    nontrivial: bool,
}

/// Err(outcome) = verdict other than held
fn judge_enet(
    c: &mut Case,
    est: &str,
    x: &Array2<f64>,
    y: &Array2<f64>,
    cfg: &Cfg,
    out: &FitOut,
    eps: f64,
    desc: &Value,
) -> Result<Judged, Outcome> {
    let (n, p) = x.dim();
    let t = y.ncols();
    let nf = n as f64;
    let sig = |s: &str| format!("C11/{est}/{s}");
    macro_rules! fail {
        ($s:expr, $($j:tt)+) => {{
            let mut d = serde_json::json!($($j)+);
            d["case"] = desc.clone();
            return Err(violated(sig($s), d));
        }};
    }
    if out.w.dim() != (p, t) || out.b.len() != t || out.pred.dim() != (n, t) {
        fail!("shape", {"w": format!("{:?}", out.w.dim()), "b": out.b.len(), "pred": format!("{:?}", out.pred.dim())});
    }
    if !(out.w.iter().all(|v| v.is_finite()) && out.b.iter().all(|v| v.is_finite()) && out.gap.is_finite()) {
        fail!("non-finite", {"w": format!("{:?}", out.w), "b": format!("{:?}", out.b), "gap": format!("{}", out.gap), "n_steps": out.n_steps});
    }
    if !cfg.intercept && out.b.iter().any(|v| *v != 0.0) {
        fail!("intercept-nonzero-when-disabled", {"b": out.b.to_vec()});
    }
    if out.n_steps > cfg.max_iter {
        fail!("n-steps-exceeds-budget", {"n_steps": out.n_steps, "max_iter": cfg.max_iter});
    }
    let l1 = cfg.lam * cfg.alpha;
    let l2 = cfg.lam * (1.0 - cfg.alpha);
    let ym = if cfg.intercept { col_means(y) } else { Array1::zeros(t) };
    let yc = y - &ym;
    let ycsq: f64 = yc.iter().map(|v| v * v).sum();
    // linfa stops early only through `gap < tol * ||y_c||^2`; with y_c = 0 that can never fire and
    // the run legitimately uses the whole budget (the gap then reported is exact, not stale)
    let budget_exhausted = l1 > 0.0 && ycsq > 0.0 && out.n_steps >= cfg.max_iter;
    let w = &out.w;
    let b = &out.b;
    let fitted = x.dot(w) + b;
    let r = y - &fitted;

    // noise-floor scale: magnitude of the summands of J at the returned point
    let mut s_j = 0.0;
    for i in 0..n {
        for k in 0..t {
            let mut m = y[[i, k]].abs() + b[k].abs();
            for j in 0..p {
                m += (x[[i, j]] * w[[j, k]]).abs();
            }
            s_j += m * m;
        }
    }
    let l21: f64 = (0..p).map(|j| row_norm(w, j)).sum();
    let fro: f64 = w.iter().map(|v| v * v).sum();
    let s_j = s_j / (2.0 * nf) + cfg.lam * (cfg.alpha * l21 + (1.0 - cfg.alpha) / 2.0 * fro);
    // reported gaps carry their own rounding error (clean tree: up to ~16 eps*n*S), hence one
    // constant for every objective-level comparison
    let floor = FLOOR_C * eps * s_j;
    let unit = (eps * s_j).max(f64::MIN_POSITIVE);

    if budget_exhausted {
        // The stated tolerance was not certified by linfa's own stopping rule. That is outside
        // the property's domain ("budgets large enough to converge") unless the budget was ample:
        // the returned point is measurably short of the tolerance (not a rounding artefact of
        // the gap evaluation) although an exact coordinate descent from a cold start reaches a
        // tenth of the tolerance within a twentieth of the budget — whether the intercept is
        // frozen at the returned value or is one of the coordinates.
        let target = cfg.tol * ycsq / nf;
        if floor >= 0.01 * target {
            return Err(inconclusive("iteration budget exhausted; configured tolerance is below the noise floor of the gap"));
        }
        let j_ret = objective(x, y, w, b, cfg.lam, cfg.alpha);
        let yshift = y - b;
        let ra = ref_solve(x, &yshift, cfg.lam, cfg.alpha, false, Some(w), 40_000);
        let rb = ref_solve(x, y, cfg.lam, cfg.alpha, cfg.intercept, Some(w), 40_000);
        let (ra, rb) = match (ra, rb) {
            (Some(a), Some(b)) => (a, b),
            _ => return Err(inconclusive("iteration budget exhausted (no reference)")),
        };
        if j_ret - ra.primal <= 0.1 * target {
            return Err(inconclusive("iteration budget exhausted although the returned point meets the tolerance by the harness's measure"));
        }
        let ample = (cfg.max_iter / 20) as usize;
        let pen_a = vec![true; p];
        let ka = bcd_sweeps_until(x, &pen_a, &yshift, l1, l2, ra.primal + 0.1 * target, ample);
        let kb = if cfg.intercept {
            let mut xa = Array2::<f64>::ones((n, p + 1));
            xa.slice_mut(s![.., ..p]).assign(x);
            let mut pen_b = vec![true; p];
            pen_b.push(false);
            bcd_sweeps_until(&xa, &pen_b, y, l1, l2, rb.primal + 0.1 * target, ample)
        } else {
            ka
        };
        match (ka, kb) {
            (Some(ka), Some(kb)) => {
                fail!("not-converged-within-ample-budget", {"n_steps": out.n_steps, "max_iterations": cfg.max_iter,
                    "gap": out.gap, "tol*|y|^2": cfg.tol * ycsq, "J_returned": j_ret, "J_optimum_for_returned_intercept": ra.primal,
                    "J_joint_optimum": rb.primal, "reference_sweeps_needed": [ka, kb], "w": mat_json(w), "b": b.to_vec()});
            }
            _ => return Err(inconclusive("iteration budget exhausted before the gap criterion was met")),
        }
    }

    // predict == XW + b (two float routes of the same sum)
    {
        let mut worst: f64 = 0.0;
        for i in 0..n {
            for k in 0..t {
                let mut m = b[k].abs();
                for j in 0..p {
                    m += (x[[i, j]] * w[[j, k]]).abs();
                }
                let ratio = (out.pred[[i, k]] - fitted[[i, k]]).abs() / (eps * m.max(f64::MIN_POSITIVE));
                if !(ratio <= worst) {
                    worst = ratio;
                }
            }
        }
        c.resid("predict-vs-XW+b / (eps*sum|terms|)", worst);
        if !(worst <= 64.0 * (p as f64 + 2.0)) {
            fail!("predict-mismatch", {"ratio_to_eps_scale": worst});
        }
    }

    // reported duality gap (linfa reports it in units of n*J)
    let gap_floor = FLOOR_C * eps * nf * s_j;
    c.resid("negative-gap / (eps*n*S)", (-out.gap).max(0.0) / (eps * nf * s_j).max(f64::MIN_POSITIVE));
    if out.gap < -gap_floor {
        fail!("gap-negative", {"gap": out.gap, "floor": gap_floor});
    }
    if out.n_steps < cfg.max_iter {
        // early stop only through `gap < tol * ||y||^2` — also without an l1 term, where the gap
        // degenerates to the primal value and an early stop therefore means a (near-)perfect fit:
        // any other early exit returns a point that the stated tolerance does not certify
        let lim = cfg.tol * ycsq * (1.0 + 1e-3) + gap_floor;
        if out.gap > lim {
            fail!("gap-above-tolerance-at-early-stop", {"gap": out.gap, "tol*|y|^2": cfg.tol * ycsq, "n_steps": out.n_steps});
        }
    }

    let wmax = (0..p).map(|j| row_norm(w, j)).fold(0.0f64, f64::max);
    // bound on the decrease available in a direction whose curvature is `curv`
    let gap_term = out.gap.max(0.0) / nf;
    let tol_step = 4.0 * cfg.tol * wmax.max(1.0);
    let bound = |curv: f64| -> f64 {
        if l1 > 0.0 {
            gap_term + floor
        } else {
            // gap degenerates to the primal value; use the configured tolerance on parameter
            // changes instead (never looser than the literal gap bound)
            (0.5 * curv * tol_step * tol_step).min(gap_term) + floor
        }
    };
    if l1 == 0.0 {
        // in the domain only if an exact coordinate descent converges well inside the budget,
        // whether or not the intercept is one of its coordinates
        let thr = 1e-3 * floor;
        let budget = (cfg.max_iter / 4) as usize;
        let yshift = y - b; // the formulation with the intercept frozen at the returned value
        let a = smooth_cd_sweeps(x, &yshift, l2, false, None, thr, budget);
        // intercept as a coordinate: from a zero start and from the usual start at mean(y)
        let (bb, bc) = if cfg.intercept {
            (smooth_cd_sweeps(x, y, l2, true, None, thr, budget), smooth_cd_sweeps(x, y, l2, true, Some(&ym), thr, budget))
        } else {
            (Some(0), Some(0))
        };
        if a.is_none() || bb.is_none() || bc.is_none() {
            return Err(inconclusive("l1 = 0: exact coordinate descent does not converge within a quarter of the budget"));
        }
    }

    // ---- coefficient directions -----------------------------------------------------------
    let mut worst_ratio: f64 = 0.0;
    let xtx_abs_row = |j: usize| -> f64 {
        (0..p).map(|k| x.column(j).dot(&x.column(k)).abs()).sum::<f64>() / nf
    };
    for j in 0..p {
        let xj = x.column(j);
        let cn = xj.dot(&xj) / nf;
        let cj = cn + l2;
        let mut rho = vec![0.0; t];
        for k in 0..t {
            rho[k] = xj.dot(&r.column(k)) / nf + cn * w[[j, k]];
        }
        let rn = rho.iter().map(|v| v * v).sum::<f64>().sqrt();
        let wn = row_norm(w, j);
        let psi = |v: &[f64]| -> f64 {
            let vn = v.iter().map(|z| z * z).sum::<f64>().sqrt();
            0.5 * cj * vn * vn - v.iter().zip(rho.iter()).map(|(a, b)| a * b).sum::<f64>() + l1 * vn
        };
        let vstar: Vec<f64> = if cj > 0.0 && rn > l1 {
            rho.iter().map(|v| (1.0 - l1 / rn) * v / cj).collect()
        } else if cj > 0.0 || l1 > 0.0 {
            vec![0.0; t]
        } else {
            continue; // zero column, no penalty: coefficient is free
        };
        let dec = psi(&w.row(j).to_vec()) - psi(&vstar);
        let bnd = bound(cj);
        // excess over the exact part of the bound, in units of eps*S (threshold: FLOOR_C)
        worst_ratio = worst_ratio.max((dec - (bnd - floor)) / unit);
        if bnd - floor < unit {
            c.resid("coef: decrease / (eps*S), runs whose gap/n or tolerance bound is below eps*S", dec / unit);
        }
        if !(dec <= bnd) {
            fail!(if l1 > 0.0 { "coef-suboptimal-beyond-gap" } else { "coef-suboptimal-beyond-tolerance" },
                {"feature": j, "available_decrease": dec, "bound": bnd, "gap/n": gap_term, "floor": floor,
                 "w_j": w.row(j).to_vec(), "one_dim_optimum": vstar, "n_steps": out.n_steps, "b": b.to_vec(), "w": mat_json(w)});
        }
        // exact zeros under the l1 threshold
        if l1 > 0.0 {
            let mut nz = 0.0;
            for i in 0..n {
                let mut m = 0.0;
                for k in 0..t {
                    let mut mm = y[[i, k]].abs() + b[k].abs();
                    for jj in 0..p {
                        mm += (x[[i, jj]] * w[[jj, k]]).abs();
                    }
                    m += mm;
                }
                nz += x[[i, j]].abs() * m;
            }
            let slack = 4.0 * cfg.tol * wmax.max(1.0) * xtx_abs_row(j) + 64.0 * eps * nz / nf;
            // the slack presumes the last sweep moved every coefficient by less than tol (the
            // stopping rule); a stop forced at max_iterations - 1 does not guarantee that
            let stop_by_rule = out.n_steps + 1 < cfg.max_iter || ycsq == 0.0;
            if rn < l1 - slack && stop_by_rule {
                c.count("rows-under-l1-threshold");
                if wn != 0.0 {
                    fail!("zero-not-exact", {"feature": j, "w_j": w.row(j).to_vec(), "corr_norm": rn, "l1_threshold": l1, "slack": slack});
                }
            } else if rn < l1 + slack {
                c.count("rows-at-l1-threshold(tie-class)");
            }
        }
    }
    c.resid("coef: (decrease - gap/n or tolerance bound) / (eps*S)  [limit 4096]", worst_ratio);

    // ---- intercept direction and joint optimality ------------------------------------------------
    let means = col_means(&r);
    let dec_b: f64 = 0.5 * means.iter().map(|v| v * v).sum::<f64>();
    let j_returned = objective(x, y, w, b, cfg.lam, cfg.alpha);
    let xm = col_means(x);
    // Discriminating predicates of the one classified defect: intercept fitted, intercept equal to
    // mean(y) (to the rounding of a mean), feature means not orthogonal to W, and the returned W
    // optimal (within the same bound) for the problem whose intercept is frozen at that value.
    // Coefficient directions, exact zeros, gap sign and predict have already passed at this point.
    let frozen_shape = |bnd: f64| -> (bool, bool, bool) {
        let mut frozen = cfg.intercept;
        for k in 0..t {
            let mabs = y.column(k).iter().map(|v| v.abs()).sum::<f64>() / nf;
            if (b[k] - ym[k]).abs() > (nf + 8.0) * eps * mabs {
                frozen = false;
            }
        }
        let shift: f64 = xm.dot(w).iter().map(|v| v * v).sum::<f64>().sqrt();
        let restricted_ok = if !frozen {
            false
        } else if l1 > 0.0 {
            let yshift = y - b;
            match ref_solve(x, &yshift, cfg.lam, cfg.alpha, false, Some(w), 40_000) {
                Some(rs) => j_returned - rs.primal <= bnd,
                None => false,
            }
        } else {
            true // smooth convex: coordinate-wise stationarity (checked above) is optimality
        };
        (frozen, restricted_ok, shift > 0.0)
    };
    if cfg.intercept {
        let bnd = bound(1.0);
        c.resid("intercept: (decrease - gap/n or tolerance bound) / (eps*S)  [limit 4096]", (dec_b - (bnd - floor)) / unit);
        if bnd - floor < unit {
            c.resid("intercept: decrease / (eps*S), runs whose gap/n or tolerance bound is below eps*S", dec_b / unit);
        }
        if !(dec_b <= bnd) {
            let (frozen, restricted_ok, shifted) = frozen_shape(bnd);
            if frozen && restricted_ok && shifted {
                c.count("known-defect-shape(intercept direction)");
                let mut d = json!({"available_decrease_through_intercept": dec_b, "bound": bnd, "gap/n": gap_term,
                    "intercept": b.to_vec(), "mean_y": ym.to_vec(), "optimal_shift_of_intercept": means.to_vec(),
                    "feature_means": xm.to_vec(), "w": mat_json(w), "J_returned": j_returned,
                    "J_after_intercept_step": objective(x, y, w, &(b + &means), cfg.lam, cfg.alpha)});
                d["case"] = desc.clone();
                return Err(violated(SIG_INTERCEPT_FROZEN, d));
            }
            fail!("intercept-suboptimal", {"available_decrease": dec_b, "bound": bnd, "intercept": b.to_vec(),
                "mean_y": ym.to_vec(), "frozen_at_mean_y": frozen, "restricted_optimal": restricted_ok, "w": mat_json(w)});
        }
    }
    if l1 > 0.0 {
        match ref_solve(x, y, cfg.lam, cfg.alpha, cfg.intercept, Some(w), 40_000) {
            Some(rs) => {
                let sub = j_returned - rs.primal;
                let bnd = gap_term + floor;
                c.resid("joint: (suboptimality - gap/n) / (eps*S)  [limit 4096]", (sub - gap_term) / unit);
                if gap_term < unit {
                    c.resid("joint: suboptimality / (eps*S), runs whose gap/n is below eps*S", sub / unit);
                }
                if rs.primal - rs.lower > floor {
                    c.count("oracle-certificate-looser-than-floor");
                }
                if !(sub <= bnd) {
                    let (frozen, restricted_ok, shifted) = frozen_shape(bnd);
                    if frozen && restricted_ok && shifted {
                        c.count("known-defect-shape(joint direction only)");
                        let mut d = json!({"J_returned": j_returned, "J_joint_optimum": rs.primal, "suboptimality": sub, "bound": bnd, "gap/n": gap_term,
                            "intercept": b.to_vec(), "mean_y": ym.to_vec(), "optimal_intercept": rs.b.to_vec(),
                            "feature_means": xm.to_vec(), "w": mat_json(w), "optimal_w": mat_json(&rs.w)});
                        d["case"] = desc.clone();
                        return Err(violated(SIG_INTERCEPT_FROZEN, d));
                    }
                    fail!("joint-suboptimal-beyond-gap", {"J_returned": j_returned, "J_reference": rs.primal, "reference_lower_bound": rs.lower,
                        "suboptimality": sub, "bound": bnd, "gap/n": gap_term, "reference_w": mat_json(&rs.w), "reference_b": rs.b.to_vec(),
                        "w": mat_json(w), "b": b.to_vec(), "reference_sweeps": rs.sweeps, "frozen_at_mean_y": frozen, "restricted_optimal": restricted_ok});
                }
            }
            None => c.count("oracle-no-reference"),
        }
    } else if let Some(rs) = ref_solve(x, y, cfg.lam, cfg.alpha, cfg.intercept, None, 0) {
        if 0.5 * tol_step * tol_step * (1.0 + l2) < unit {
            c.resid("joint (l1 = 0, not judged): suboptimality vs QR optimum / (eps*S)", (j_returned - rs.primal) / unit);
        }
    }
    Ok(Judged { nontrivial: wmax > 0.0 })
}

// ------------------------------------------------------------------------------------------------
// workload

struct Design {
    x: Array2<f64>,
    centred: bool,
    tags: String,
}

/// columns: gaussian / uniform / dummy / small integers / constant / collinear copies, with
/// per-column scale and offset; `centre` subtracts every column mean afterwards
fn gen_design(rng: &mut Rng, n: usize, p: usize, scale_mode: u8, offset_mode: u8, allow_constant: bool, allow_collinear: bool) -> Design {
    let mut x = Array2::<f64>::zeros((n, p));
    let mut tags = String::new();
    for j in 0..p {
        let kind = rng.gen_range(0..12);
        let scale = match scale_mode {
            0 => 1.0,
            1 => gen::log_uniform(rng, 1e-3, 1e3),
            _ => *gen::pick(rng, &[1e-3, 1.0, 1e3]),
        };
        let offset = match offset_mode {
            0 | 1 => 0.0,
            2 => *gen::pick(rng, &[0.0, 0.5, -1.0, 3.0]),
            3 => *gen::pick(rng, &[10.0, -30.0, 100.0]),
            _ => *gen::pick(rng, &[0.0, 1.0, -10.0, 100.0]),
        };
        if kind == 0 && allow_constant {
            let v = *gen::pick(rng, &[0.0, 1.0, -2.5]);
            x.column_mut(j).fill(v * scale);
            tags.push('k');
        } else if kind == 1 && allow_collinear && j > 0 {
            let src = rng.gen_range(0..j);
            let f = *gen::pick(rng, &[1.0, -2.0, 0.5]);
            let noise = *gen::pick(rng, &[0.0, 1e-6, 1e-2]);
            let col = x.column(src).to_owned();
            let sd = (col.iter().map(|v| v * v).sum::<f64>() / n as f64).sqrt();
            for i in 0..n {
                x[[i, j]] = f * col[i] + noise * sd * gen::normal(rng);
            }
            tags.push('c');
        } else if kind == 2 {
            for i in 0..n {
                x[[i, j]] = scale * (if rng.gen::<f64>() < 0.3 { 1.0 } else { 0.0 });
            }
            tags.push('d');
        } else if kind == 3 {
            for i in 0..n {
                x[[i, j]] = scale * (rng.gen_range(-3i32..=3) as f64 + offset);
            }
            tags.push('i');
        } else if kind == 4 {
            for i in 0..n {
                x[[i, j]] = scale * (gen::uniform(rng, -1.0, 1.0) + offset);
            }
            tags.push('u');
        } else {
            for i in 0..n {
                x[[i, j]] = scale * (gen::normal(rng) + offset);
            }
            tags.push('g');
        }
    }
    let centred = offset_mode == 0;
    if centred {
        let m = col_means(&x);
        x = x - &m;
        for (j, ch) in tags.chars().enumerate() {
            if ch == 'k' {
                x.column_mut(j).fill(0.0); // not the rounding residue of the subtraction
            }
        }
    }
    Design { x, centred, tags }
}

fn gen_targets(rng: &mut Rng, x: &Array2<f64>, t: usize) -> (Array2<f64>, String) {
    let (n, p) = x.dim();
    let mode = rng.gen_range(0..16);
    if mode == 0 {
        // constant targets
        let v = *gen::pick(rng, &[0.0, 1.0, -7.5]);
        return (Array2::from_elem((n, t), v), "const".into());
    }
    let mut beta = Array2::<f64>::zeros((p, t));
    for j in 0..p {
        let sd = (x.column(j).iter().map(|v| v * v).sum::<f64>() / n as f64).sqrt().max(1e-300);
        let active = rng.gen::<f64>() < 0.6;
        for k in 0..t {
            if active {
                beta[[j, k]] = gen::normal(rng) / sd;
            }
        }
    }
    let b0 = *gen::pick(rng, &[0.0, 0.0, 5.0, -300.0]);
    let sigma = *gen::pick(rng, &[0.0, 0.1, 1.0]);
    let yscale = *gen::pick(rng, &[1.0, 1.0, 1.0, 1e-3, 1e3]);
    let mut y = x.dot(&beta);
    for v in y.iter_mut() {
        *v = yscale * (*v + b0 + sigma * gen::normal(rng));
    }
    (y, format!("b0={b0} sigma={sigma} ys={yscale}"))
}

fn round_arr<F: linfa::Float>(a: &Array2<f64>) -> Array2<f64> {
    a.mapv(round_f::<F>)
}

fn run_enet_case<F: linfa::Float>(
    c: &mut Case,
    multi: bool,
    x: &Array2<f64>,
    y: &Array2<f64>,
    cfg: &Cfg,
    layout: u8,
    desc: &Value,
) -> Result<Judged, Outcome> {
    let est = if multi { "mtl" } else { "enet" };
    // the estimator sees F-rounded data and parameters; so does the oracle
    let x = round_arr::<F>(x);
    let y = round_arr::<F>(y);
    let cfg = Cfg {
        lam: round_f::<F>(cfg.lam),
        alpha: round_f::<F>(cfg.alpha),
        tol: round_f::<F>(cfg.tol),
        ..cfg.clone()
    };
    let fitted = if multi {
        fit_multi::<F>(&x, &y, &cfg, layout)
    } else {
        fit_single::<F>(&x, &y, &cfg, layout)
    };
    let out = match fitted {
        Err(p) => {
            let mut d = json!({"panic": p});
            d["case"] = desc.clone();
            return Err(violated(format!("C11/{est}/panic"), d));
        }
        Ok(Err(e)) => return Err(inconclusive(format!("fit returned Err: {e}"))),
        Ok(Ok(o)) => o,
    };
    judge_enet(c, est, &x, &y, &cfg, &out, eps_of::<F>(), desc)
}

fn mat_json(a: &Array2<f64>) -> Value {
    json!(a.rows().into_iter().map(|r| r.to_vec()).collect::<Vec<_>>())
}

/// random elastic-net family (single- or multi-task)
fn enet_random(c: &mut Case, multi: bool, extreme_scale: bool) -> Outcome {
    let big = c.tier == Tier::Thorough && c.idx % 4 == 0;
    let p = if big { c.rng.gen_range(1..=16) } else { c.rng.gen_range(1..=7) };
    let n = p + 1 + if big { c.rng.gen_range(0..150) } else { c.rng.gen_range(0..40) };
    let t = if multi { c.rng.gen_range(1..=3) } else { 1 };
    let f32m = c.rng.gen::<f64>() < 0.35;
    let offset_mode = *gen::pick(&mut c.rng, &[0u8, 0, 1, 2, 3, 4]);
    let scale_mode = if extreme_scale { 9 } else { *gen::pick(&mut c.rng, &[0u8, 0, 1, 2]) };
    let lam_base = *gen::pick(&mut c.rng, &[0.0, 1e-3, 1e-2, 0.1, 1.0, 10.0]);
    let alpha = *gen::pick(&mut c.rng, &[0.0, 0.25, 0.5, 1.0, 1.0, 0.9]);
    let intercept = c.rng.gen::<f64>() < 0.6;
    // constant and collinear columns only where the property's domain has them (regularised fits)
    let collinear = lam_base > 0.0 && c.rng.gen::<f64>() < 0.35;
    let mut d = gen_design(&mut c.rng, n, p, if extreme_scale { 0 } else { scale_mode }, offset_mode, lam_base > 0.0, collinear);
    if extreme_scale {
        for j in 0..p {
            let sc = *gen::pick(&mut c.rng, &[1e-9, 1e-6, 1.0, 1e6, 1e9]);
            d.x.column_mut(j).mapv_inplace(|v| v * sc);
        }
    }
    let (y, ytag) = gen_targets(&mut c.rng, &d.x, t);
    // scale the penalty with the target scale now and then so that it bites for tiny/huge targets
    let ysd = (y.iter().map(|v| v * v).sum::<f64>() / y.len() as f64).sqrt();
    let lam = if c.rng.gen::<f64>() < 0.3 && ysd > 0.0 { lam_base * ysd } else { lam_base };
    let l1 = lam * alpha;
    let tol = match (f32m, l1 > 0.0) {
        (true, true) => *gen::pick(&mut c.rng, &[1e-2, 1e-3, 1e-4]),
        (false, true) => *gen::pick(&mut c.rng, &[1e-1, 1e-2, 1e-4, 1e-6, 1e-8, 1e-8, 1e-10]),
        // l1 = 0: the stopping rule cannot fire, the tolerance only enters the oracle's bound
        (true, false) => 1e-4,
        (false, false) => *gen::pick(&mut c.rng, &[1e-8, 1e-10]),
    };
    let max_iter: u32 = if ytag == "const" {
        600 // nothing to fit beyond the intercept; linfa cannot stop early when y_c = 0
    } else if l1 > 0.0 {
        // the multi-task solver is an order of magnitude slower per sweep
        match (multi, f32m) {
            (false, false) => 100_000,
            (false, true) => 20_000,
            (true, false) => 20_000,
            (true, true) => 8_000,
        }
    } else if big || multi {
        4_000
    } else {
        12_000
    };
    let layout = c.rng.gen_range(0..NLAYOUT);
    let cfg = Cfg { lam, alpha, intercept, tol, max_iter };
    let desc = json!({"n": n, "p": p, "T": t, "float": if f32m {"f32"} else {"f64"}, "columns": d.tags, "centred": d.centred,
        "offset_mode": offset_mode, "scale_mode": scale_mode, "targets": ytag, "penalty": lam, "l1_ratio": alpha,
        "with_intercept": intercept, "tolerance": tol, "max_iterations": max_iter, "layout": layout,
        "x": if n * p <= 60 { mat_json(&d.x) } else { json!("large") }, "y": if n * t <= 60 { mat_json(&y) } else { json!("large") }});
    c.note("case", json!({"n": n, "p": p, "T": t, "float": if f32m {"f32"} else {"f64"}, "columns": d.tags, "centred": d.centred,
        "penalty": lam, "l1_ratio": alpha, "with_intercept": intercept, "tolerance": tol, "layout": layout}));
    // domain: l2 = 0 needs full column rank of the (centred when the intercept is fitted) design
    if lam == 0.0 {
        let xr = if f32m { round_arr::<f32>(&d.x) } else { d.x.clone() };
        let a = if intercept {
            let mut a = Array2::<f64>::ones((n, p + 1));
            a.slice_mut(s![.., ..p]).assign(&xr);
            a
        } else {
            xr
        };
        let thr = if f32m { 1e-4 } else { 1e-9 };
        match lstsq(&a, &Array2::zeros((n, 1))) {
            Some((_, minr)) if minr > thr => {}
            _ => return inconclusive("design not of full column rank and no penalty"),
        }
    }
    let res = if f32m {
        run_enet_case::<f32>(c, multi, &d.x, &y, &cfg, layout, &desc)
    } else {
        run_enet_case::<f64>(c, multi, &d.x, &y, &cfg, layout, &desc)
    };
    match res {
        Err(o) => o,
        Ok(j) => {
            if intercept && !d.centred {
                c.count("held-with-intercept-on-uncentred-features");
            }
            held(
                j.nontrivial,
                format!(
                    "{} n={n} p={p} T={t} f32={f32m} lam={lam:e} a={alpha} ic={intercept} tol={tol:e} lay={layout} cols={} h={:x}",
                    if multi { "mtl" } else { "enet" },
                    d.tags,
                    small_hash(&d.x, &y)
                ),
            )
        }
    }
}

// ---- small-scope enumeration ---------------------------------------------------------------------

const XVALS: [f64; 4] = [-1.0, 0.0, 1.0, 2.0];
const YVALS: [f64; 3] = [-1.0, 0.0, 2.0];
const LAT_LAM: [f64; 3] = [0.0, 0.25, 1.0];
const LAT_ALPHA: [f64; 3] = [0.0, 0.5, 1.0];

/// index -> (x (3x1), y (3xT), lam, alpha, intercept); complete for p = 1, n = 3
fn lattice_case(idx: u64, t: usize) -> (Array2<f64>, Array2<f64>, f64, f64, bool) {
    let mut k = idx;
    let mut take = |m: u64| {
        let v = k % m;
        k /= m;
        v as usize
    };
    let intercept = take(2) == 1;
    let alpha = LAT_ALPHA[take(3)];
    let lam = LAT_LAM[take(3)];
    let mut x = Array2::zeros((3, 1));
    for i in 0..3 {
        x[[i, 0]] = XVALS[take(4)];
    }
    let mut y = Array2::zeros((3, t));
    for i in 0..3 {
        for c in 0..t {
            y[[i, c]] = YVALS[take(3)];
        }
    }
    (x, y, lam, alpha, intercept)
}
fn lattice_size(t: usize) -> u64 {
    2 * 3 * 3 * 64 * 3u64.pow(3 * t as u32)
}

fn enet_lattice(c: &mut Case, multi: bool, idx: u64, t: usize) -> Outcome {
    let (x, y, lam, alpha, intercept) = lattice_case(idx, t);
    let xs = if intercept { &x - &col_means(&x) } else { x.clone() };
    if lam == 0.0 && xs.iter().all(|v| *v == 0.0) {
        return inconclusive("design not of full column rank and no penalty");
    }
    let yc = if intercept { &y - &col_means(&y) } else { y.clone() };
    let flat = yc.iter().all(|v| *v == 0.0);
    let cfg = Cfg { lam, alpha, intercept, tol: 1e-10, max_iter: if lam * alpha > 0.0 && !flat { 50_000 } else { 2_000 } };
    let desc = json!({"x": mat_json(&x), "y": mat_json(&y), "penalty": lam, "l1_ratio": alpha, "with_intercept": intercept, "float": "f64"});
    c.note("case", desc.clone());
    match run_enet_case::<f64>(c, multi, &x, &y, &cfg, 0, &desc) {
        Err(o) => o,
        Ok(j) => held(j.nontrivial, format!("lat multi={multi} idx={idx}")),
    }
}

// ---- OLS ---------------------------------------------------------------------------------------

fn judge_ols(c: &mut Case, x: &Array2<f64>, y: &Array2<f64>, intercept: bool, out: &OlsOut, eps: f64, desc: &Value) -> Result<bool, Outcome> {
    let (n, p) = x.dim();
    macro_rules! fail {
        ($s:expr, $($j:tt)+) => {{
            let mut d = serde_json::json!($($j)+);
            d["case"] = desc.clone();
            return Err(violated(format!("C11/ols/{}", $s), d));
        }};
    }
    if out.w.len() != p || out.pred.len() != n {
        fail!("shape", {"w": out.w.len(), "pred": out.pred.len()});
    }
    if !(out.w.iter().all(|v| v.is_finite()) && out.b.is_finite()) {
        fail!("non-finite", {"w": format!("{:?}", out.w), "b": format!("{}", out.b)});
    }
    if !intercept && out.b != 0.0 {
        fail!("intercept-nonzero-when-disabled", {"b": out.b});
    }
    let k = p + intercept as usize;
    let mut a = Array2::<f64>::ones((n, k));
    a.slice_mut(s![.., ..p]).assign(x);
    let mut z = Array1::<f64>::zeros(k);
    z.slice_mut(s![..p]).assign(&out.w);
    if intercept {
        z[p] = out.b;
    }
    let yv = y.column(0).to_owned();
    let fitted = a.dot(&z);
    let r = &yv - &fitted;
    let cn: Vec<f64> = (0..k).map(|j| a.column(j).dot(&a.column(j)).sqrt()).collect();
    let ynorm = yv.dot(&yv).sqrt();
    let mag = ynorm + (0..k).map(|j| cn[j] * z[j].abs()).sum::<f64>();
    // predict
    let mut worst: f64 = 0.0;
    for i in 0..n {
        let m: f64 = (0..k).map(|j| (a[[i, j]] * z[j]).abs()).sum();
        let ratio = (out.pred[i] - fitted[i]).abs() / (eps * m.max(f64::MIN_POSITIVE));
        if !(ratio <= worst) {
            worst = ratio;
        }
    }
    c.resid("ols predict-vs-Xw+b / (eps*sum|terms|)", worst);
    if !(worst <= 64.0 * (p as f64 + 2.0)) {
        fail!("predict-mismatch", {"ratio_to_eps_scale": worst});
    }
    // orthogonality of the residual to every column of [X, 1]
    for j in 0..k {
        let g = a.column(j).dot(&r);
        let scale = cn[j] * mag;
        let ratio = g.abs() / (eps * scale).max(f64::MIN_POSITIVE);
        c.resid("ols |x_j'r| / (eps*|x_j|*(|y|+sum|x_k||w_k|))", ratio);
        if !(ratio <= 64.0 * (k as f64 + 4.0)) {
            fail!(if j < p { "residual-not-orthogonal-to-feature" } else { "residual-not-orthogonal-to-constant" },
                {"column": j, "x_j'r": g, "scale": scale, "ratio_to_eps_scale": ratio, "w": out.w.to_vec(), "b": out.b});
        }
    }
    // SSE against the harness's own QR solution
    let sse = r.dot(&r);
    let floor = 256.0 * eps * mag * mag;
    if let Some((zr, _)) = lstsq(&a, &y.to_owned()) {
        let rr = &yv - &a.dot(&zr.column(0));
        let sse_ref = rr.dot(&rr);
        c.resid("ols (SSE - SSE_ref) / floor", (sse - sse_ref) / floor.max(f64::MIN_POSITIVE));
        if !(sse - sse_ref <= floor) {
            fail!("sse-above-reference", {"sse": sse, "sse_reference": sse_ref, "floor": floor, "w": out.w.to_vec(), "b": out.b, "reference": zr.column(0).to_vec()});
        }
    }
    // Sharper reading of "no other coefficients give a smaller SSE": with Q an orthonormal basis of
    // range([X,1]) the excess over the minimum is exactly |Q'r|^2, which can be evaluated to
    // (eps*mag)^2 instead of eps*mag^2. A backward-stable solver leaves |Q'r| <~ eps*(mag + kappa*|r*|);
    // forming the normal equations leaves eps*kappa*mag, orders of magnitude more on offset or
    // badly scaled designs.
    if let Some((q, kappa)) = orthonormal_basis(&a) {
        let qtr = q.t().dot(&r);
        let excess = qtr.dot(&qtr).sqrt();
        let rstar = (r.dot(&r) - qtr.dot(&qtr)).max(0.0).sqrt();
        let bound = eps * (mag + kappa * rstar);
        let ratio = excess / bound.max(f64::MIN_POSITIVE);
        c.resid("ols |Q'r| / (eps*(mag + kappa*|r*|))", ratio);
        if kappa * eps < 1e-3 && !(ratio <= 4096.0 * (k as f64).sqrt()) {
            fail!("fitted-values-not-the-projection", {"norm_Qt_r": excess, "bound_unit": bound, "ratio": ratio, "kappa_estimate": kappa,
                "w": out.w.to_vec(), "b": out.b, "n": n});
        }
    }
    // direct reading: random perturbations never lower the SSE
    let mut evals = 1;
    for trial in 0..12 {
        let eta = 10f64.powi(-(trial % 6) - 1);
        let mut z2 = z.clone();
        for j in 0..k {
            if c.rng.gen::<f64>() < 0.6 {
                let unit = if cn[j] > 0.0 { mag / cn[j] } else { 1.0 };
                z2[j] += eta * gen::normal(&mut c.rng) * unit;
            }
        }
        let r2 = &yv - &a.dot(&z2);
        let sse2 = r2.dot(&r2);
        let mag2 = ynorm + (0..k).map(|j| cn[j] * z2[j].abs()).sum::<f64>();
        evals += 1;
        if !(sse2 >= sse - 256.0 * eps * mag2 * mag2) {
            fail!("perturbation-lowers-sse", {"sse": sse, "sse_perturbed": sse2, "perturbed": z2.to_vec(), "w": out.w.to_vec(), "b": out.b});
        }
    }
    c.evals = evals;
    Ok(sse > floor)
}

/// Orthonormal basis of the column space by modified Gram-Schmidt applied twice (f64), and the
/// condition estimate max|R_jj| / min|R_jj| of the column-scaled matrix. None if rank deficient.
fn orthonormal_basis(a: &Array2<f64>) -> Option<(Array2<f64>, f64)> {
    let (n, k) = a.dim();
    if n < k {
        return None;
    }
    let mut q = a.clone();
    let mut rdiag = vec![0.0f64; k];
    let mut cnorm = vec![0.0f64; k];
    for j in 0..k {
        cnorm[j] = q.column(j).dot(&q.column(j)).sqrt();
        if !(cnorm[j] > 0.0) {
            return None;
        }
        for _pass in 0..2 {
            for i in 0..j {
                let qi = q.column(i).to_owned();
                let proj = qi.dot(&q.column(j));
                q.column_mut(j).scaled_add(-proj, &qi);
            }
        }
        let nrm = q.column(j).dot(&q.column(j)).sqrt();
        // relative to the original column: a tiny remainder means numerical rank deficiency
        if !(nrm > 1e-13 * cnorm[j]) {
            return None;
        }
        rdiag[j] = nrm / cnorm[j];
        q.column_mut(j).mapv_inplace(|v| v / nrm);
    }
    let mx = rdiag.iter().cloned().fold(0.0, f64::max);
    let mn = rdiag.iter().cloned().fold(f64::INFINITY, f64::min);
    Some((q, (mx / mn).max(1.0)))
}

fn run_ols_case<F: linfa::Float>(c: &mut Case, x: &Array2<f64>, y: &Array2<f64>, intercept: bool, layout: u8, desc: &Value) -> Result<bool, Outcome> {
    let x = round_arr::<F>(x);
    let y = round_arr::<F>(y);
    let eps = eps_of::<F>();
    let (n, p) = x.dim();
    let k = p + intercept as usize;
    let mut a = Array2::<f64>::ones((n, k));
    a.slice_mut(s![.., ..p]).assign(&x);
    let minr = lstsq(&a, &Array2::zeros((n, 1))).map(|v| v.1).unwrap_or(0.0);
    let out = match fit_ols::<F>(&x, &y, intercept, layout) {
        Err(pn) => {
            if minr < 1e3 * eps {
                return Err(inconclusive("rank-deficient design (panic not judged)"));
            }
            let mut d = json!({"panic": pn});
            d["case"] = desc.clone();
            return Err(violated("C11/ols/panic", d));
        }
        Ok(Err(e)) => {
            if minr > 1e4 * eps {
                let mut d = json!({"error": e, "min_rdiag_equilibrated": minr});
                d["case"] = desc.clone();
                return Err(violated("C11/ols/error-on-full-rank-design", d));
            }
            return Err(inconclusive(format!("fit returned Err on a rank-deficient design: {e}")));
        }
        Ok(Ok(o)) => o,
    };
    if minr < 1e3 * eps {
        return Err(inconclusive("design not of full column rank"));
    }
    judge_ols(c, &x, &y, intercept, &out, eps, desc)
}

fn ols_random(c: &mut Case) -> Outcome {
    ols_random_shape(c, false)
}

/// tall designs (many samples per parameter) with offset / badly scaled columns
fn ols_tall(c: &mut Case) -> Outcome {
    ols_random_shape(c, true)
}

fn ols_random_shape(c: &mut Case, tall: bool) -> Outcome {
    let big = c.tier == Tier::Thorough && c.idx % 4 == 0;
    let p = if tall { c.rng.gen_range(1..=4) } else if big { c.rng.gen_range(1..=24) } else { c.rng.gen_range(1..=8) };
    let intercept = if tall { c.rng.gen::<f64>() < 0.8 } else { c.rng.gen::<f64>() < 0.6 };
    let n = if tall { (p + 1) * c.rng.gen_range(16..60) } else { p + intercept as usize + if big { c.rng.gen_range(0..300) } else { c.rng.gen_range(0..50) } };
    let f32m = c.rng.gen::<f64>() < 0.4;
    let offset_mode = *gen::pick(&mut c.rng, &[0u8, 1, 2, 3, 4]);
    let scale_mode = *gen::pick(&mut c.rng, &[0u8, 1, 1, 2]);
    let collinear = c.rng.gen::<f64>() < 0.2;
    let d = gen_design(&mut c.rng, n, p, scale_mode, offset_mode, !intercept, collinear);
    let (y, ytag) = gen_targets(&mut c.rng, &d.x, 1);
    let layout = c.rng.gen_range(0..NLAYOUT);
    let desc = json!({"n": n, "p": p, "float": if f32m {"f32"} else {"f64"}, "columns": d.tags, "offset_mode": offset_mode, "scale_mode": scale_mode,
        "targets": ytag, "with_intercept": intercept, "layout": layout,
        "x": if n * p <= 60 { mat_json(&d.x) } else { json!("large") }, "y": if n <= 60 { mat_json(&y) } else { json!("large") }});
    c.note("case", json!({"n": n, "p": p, "float": if f32m {"f32"} else {"f64"}, "columns": d.tags, "with_intercept": intercept, "layout": layout}));
    let res = if f32m {
        run_ols_case::<f32>(c, &d.x, &y, intercept, layout, &desc)
    } else {
        run_ols_case::<f64>(c, &d.x, &y, intercept, layout, &desc)
    };
    match res {
        Err(o) => o,
        Ok(nt) => held(nt, format!("ols n={n} p={p} f32={f32m} ic={intercept} lay={layout} cols={} h={:x}", d.tags, small_hash(&d.x, &y))),
    }
}

/// features that vary by about one unit on top of an offset that is large for the element type
/// (1e6..1e8 in f64, 1e3..4e3 in f32), with an intercept: centring makes this a well-conditioned
/// problem, and the coefficient of such a column is as determined as that of a centred one
fn ols_far_offset(c: &mut Case) -> Outcome {
    let f32m = c.rng.gen::<f64>() < 0.5;
    let p = c.rng.gen_range(1..=3usize);
    let n = (p + 1) * c.rng.gen_range(12..40);
    let mut x = Array2::<f64>::zeros((n, p));
    let mut tags = String::new();
    for j in 0..p {
        let off = if f32m { *gen::pick(&mut c.rng, &[1e3, 4e3, -2e3, 0.0]) } else { *gen::pick(&mut c.rng, &[1e6, 1e8, -3e7, 0.0]) };
        let spread = *gen::pick(&mut c.rng, &[1.0, 0.25, 3.0]);
        for i in 0..n {
            let v = off + spread * if j % 2 == 0 { gen::uniform(&mut c.rng, -1.0, 1.0) } else { gen::normal(&mut c.rng) };
            x[[i, j]] = if f32m { (v as f32) as f64 } else { v };
        }
        tags.push_str(&format!("[{off:e}+-{spread}]"));
    }
    // targets from the centred features, so that their size does not hide the coefficients
    let mut y = Array2::<f64>::zeros((n, 1));
    let beta: Vec<f64> = (0..p).map(|_| *gen::pick(&mut c.rng, &[1.0, -2.0, 0.5])).collect();
    let means: Vec<f64> = (0..p).map(|j| x.column(j).sum() / n as f64).collect();
    for i in 0..n {
        y[[i, 0]] = 3.0 + (0..p).map(|j| beta[j] * (x[[i, j]] - means[j])).sum::<f64>() + 0.1 * gen::normal(&mut c.rng);
    }
    let layout = c.rng.gen_range(0..NLAYOUT);
    let desc = json!({"n": n, "p": p, "float": if f32m {"f32"} else {"f64"}, "columns": tags, "with_intercept": true, "layout": layout,
        "x_head": x.rows().into_iter().take(6).map(|r| r.to_vec()).collect::<Vec<_>>()});
    c.note("case", desc.clone());
    let res = if f32m { run_ols_case::<f32>(c, &x, &y, true, layout, &desc) } else { run_ols_case::<f64>(c, &x, &y, true, layout, &desc) };
    match res {
        Err(o) => o,
        Ok(nt) => held(nt, format!("ols-far-offset n={n} p={p} f32={f32m} lay={layout} cols={tags} h={:x}", small_hash(&x, &y))),
    }
}

/// complete enumeration: n = 3, p = 1, x in XVALS^3, y in YVALS^3, intercept on/off, f32/f64
fn ols_lattice(c: &mut Case, idx: u64) -> Outcome {
    let mut k = idx;
    let mut take = |m: u64| {
        let v = k % m;
        k /= m;
        v as usize
    };
    let intercept = take(2) == 1;
    let f32m = take(2) == 1;
    let mut x = Array2::zeros((3, 1));
    for i in 0..3 {
        x[[i, 0]] = XVALS[take(4)];
    }
    let mut y = Array2::zeros((3, 1));
    for i in 0..3 {
        y[[i, 0]] = YVALS[take(3)];
    }
    let desc = json!({"x": mat_json(&x), "y": mat_json(&y), "with_intercept": intercept, "float": if f32m {"f32"} else {"f64"}});
    c.note("case", desc.clone());
    let res = if f32m {
        run_ols_case::<f32>(c, &x, &y, intercept, 0, &desc)
    } else {
        run_ols_case::<f64>(c, &x, &y, intercept, 0, &desc)
    };
    match res {
        Err(o) => o,
        Ok(nt) => held(nt, format!("ols-lat {idx}")),
    }
}

// ------------------------------------------------------------------------------------------------

pub fn run(ctx: &Ctx) {
    ctx.set_rule(
        "one case = one fit of one estimator (OLS / elastic net / multi-task elastic net) on one generated \
         dataset and configuration (n>p, column kinds gaussian/uniform/dummy/integer/constant/collinear, column scales \
         1e-3..1e3 (1e-9..1e9 in the *-extreme-scale families), centred or offset features, target offsets and scales, \
         1..3 target columns, penalty in {0,1e-3..10}(x target scale), l1_ratio in {0,.25,.5,.9,1}, intercept on/off, \
         tolerance 1e-1..1e-10, f32/f64, five memory layouts) judged by all applicable oracle checks; \
         non-trivial = at least one non-zero coefficient (elastic net) / residual above the noise floor (OLS); distinct = \
         different (configuration, shape, data hash); the ols-lattice and enet-lattice families enumerate n=3, p=1 \
         integer data completely, mtl-lattice samples the corresponding T=2 lattice",
    );
    ctx.assume("the harness's own f64 arithmetic (Householder QR, closed-form one-dimensional minimisers, block coordinate descent certified by its own dual bound) is correct");
    ctx.assume("a run that exhausts its iteration budget is outside the domain (inconclusive) unless the budget was ample: tolerance well above the noise floor, returned point measurably short of it, and an exact cold-start coordinate descent reaches a tenth of the tolerance within a twentieth of the budget");
    ctx.assume("linfa reports duality_gap in units of n*J (sum-of-squares scaling), as its stopping rule gap < tol*||y||^2 implies");
    ctx.assume("for l1_ratio*penalty = 0 linfa's gap equals the primal value and its stopping rule cannot fire; such runs are in the domain when an exact cyclic coordinate descent converges within a quarter of the iteration budget, and are judged against the configured tolerance");

    ctx.family("ols", ctx.tier.pick(1500, 12000), |c| ols_random(c));
    ctx.family("ols-tall", ctx.tier.pick(800, 6000), |c| ols_tall(c));
    ctx.family("ols-far-offset", ctx.tier.pick(400, 3000), |c| ols_far_offset(c));
    ctx.family("ols-lattice", 2 * 2 * 64 * 27, |c| {
        let idx = c.idx;
        ols_lattice(c, idx)
    });
    ctx.set_exhaustive("ols: n=3,p=1,x in {-1,0,1,2}^3,y in {-1,0,2}^3,intercept,f32/f64", true);

    ctx.family("enet", ctx.tier.pick(1200, 8000), |c| enet_random(c, false, false));
    ctx.family("mtl", ctx.tier.pick(500, 3000), |c| enet_random(c, true, false));
    ctx.family("enet-extreme-scale", ctx.tier.pick(200, 1000), |c| enet_random(c, false, true));
    ctx.family("mtl-extreme-scale", ctx.tier.pick(100, 400), |c| enet_random(c, true, true));

    // p = 1, n = 3 lattice: single task complete in both tiers; multi-task (T = 2, 839808 points) is
    // sampled with the case seed
    let n1 = lattice_size(1);
    ctx.family("enet-lattice", n1, |c| {
        let idx = c.idx;
        enet_lattice(c, false, idx, 1)
    });
    ctx.set_exhaustive("enet: n=3,p=1,x in {-1,0,1,2}^3,y in {-1,0,2}^3,penalty in {0,.25,1},l1_ratio in {0,.5,1},intercept", true);
    let n2 = lattice_size(2);
    ctx.family("mtl-lattice", ctx.tier.pick(4000, 60_000), |c| {
        let idx = c.rng.gen_range(0..n2);
        enet_lattice(c, true, idx, 2)
    });
    ctx.set_exhaustive("mtl: n=3,p=1,T=2 lattice (839808 points, sampled)", false);
}
