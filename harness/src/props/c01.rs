//! C01 — k-fold partitions the samples and leaves the dataset intact.
//!
//! Identity tags: records[i][j] = i*P + j, targets[i][c] = i*T + c. Every output cell names the
//! (row, column) it came from, so the oracle is pure index arithmetic.
use crate::fw::*;
use linfa::dataset::{AsTargets, DatasetBase, DatasetView};
use linfa::traits::{Fit, PredictInplace};
use linfa::Dataset;
use ndarray::{Array, Array1, Array2, ArrayView, ArrayView2, Axis, Dimension, Ix1, Ix2};
use rand::Rng as _;
use serde_json::json;
use std::sync::Mutex;

fn tagged_records(n: usize, p: usize, forder: bool) -> Array2<f64> {
    let a = Array2::from_shape_fn((n, p), |(i, j)| (i * p + j) as f64);
    if forder {
        let mut f = Array2::zeros((p, n));
        f.assign(&a.t());
        f.reversed_axes()
    } else {
        a
    }
}
fn tagged_t1(n: usize) -> Array1<f64> {
    Array1::from_shape_fn(n, |i| i as f64)
}
fn tagged_t2(n: usize, t: usize) -> Array2<f64> {
    Array2::from_shape_fn((n, t), |(i, c)| (i * t + c) as f64)
}
/// same cells, stored column-major (contiguous in memory, not in standard order)
fn tagged_t2_f(n: usize, t: usize) -> Array2<f64> {
    let mut f = Array2::zeros((t, n));
    f.assign(&tagged_t2(n, t).t());
    f.reversed_axes()
}

/// Decode the original row ids of a (records, targets) pair; Err(description) when a row's cells
/// disagree or a column is out of place.
fn decode<D: Dimension + ndarray::RemoveAxis>(
    rec: ArrayView2<f64>,
    tar: ArrayView<f64, D>,
    p: usize,
    t: usize,
) -> Result<Vec<usize>, String> {
    let n = rec.nrows();
    if tar.len_of(Axis(0)) != n {
        return Err(format!(
            "records have {} rows, targets {}",
            n,
            tar.len_of(Axis(0))
        ));
    }
    if rec.ncols() != p {
        return Err(format!("records have {} columns, expected {}", rec.ncols(), p));
    }
    let mut ids = Vec::with_capacity(n);
    for r in 0..n {
        // degenerate widths: without feature columns the identity is carried by the targets alone
        let (v0, w) = if p > 0 {
            (rec[[r, 0]], p)
        } else if t > 0 {
            (*tar.index_axis(Axis(0), r).iter().next().unwrap(), t)
        } else {
            ids.push(r);
            continue;
        };
        if v0 < 0.0 || v0.fract() != 0.0 {
            return Err(format!("row {r}: cell value {v0} is not a tag"));
        }
        let id = (v0 as usize) / w;
        for j in 0..p {
            if rec[[r, j]] != (id * p + j) as f64 {
                return Err(format!(
                    "row {r}: record cell {j} holds {} but row id from cell 0 is {id}",
                    rec[[r, j]]
                ));
            }
        }
        let trow = tar.index_axis(Axis(0), r);
        if trow.len() != t {
            return Err(format!("row {r}: {} target cells, expected {t}", trow.len()));
        }
        for (c, v) in trow.iter().enumerate() {
            if *v != (id * t + c) as f64 {
                return Err(format!(
                    "row {r}: record belongs to sample {id} but target cell {c} holds {v}"
                ));
            }
        }
        ids.push(id);
    }
    Ok(ids)
}

fn check_fold_pair(
    f: usize,
    n: usize,
    k: usize,
    train: &[usize],
    valid: &[usize],
) -> Result<(), String> {
    let fs = n / k;
    let expect_valid: Vec<usize> = (f * fs..(f + 1) * fs).collect();
    if valid != expect_valid.as_slice() {
        return Err(format!(
            "fold {f}: validation ids {:?} != expected block {:?}",
            valid, expect_valid
        ));
    }
    let mut tr = train.to_vec();
    tr.sort_unstable();
    let expect_train: Vec<usize> = (0..n).filter(|i| *i < f * fs || *i >= (f + 1) * fs).collect();
    if tr != expect_train {
        return Err(format!(
            "fold {f}: training ids (sorted) {:?} != complement {:?}",
            tr, expect_train
        ));
    }
    Ok(())
}

// ---------------------------------------------------------------- mocks for cross_validate

#[derive(Debug)]
enum MockErr {
    Linfa(linfa::Error),
    FitFailed { model: usize, fold: usize },
}
impl std::fmt::Display for MockErr {
    fn fmt(&self, f: &mut std::fmt::Formatter<'_>) -> std::fmt::Result {
        write!(f, "{self:?}")
    }
}
impl std::error::Error for MockErr {}
impl From<linfa::Error> for MockErr {
    fn from(e: linfa::Error) -> Self {
        MockErr::Linfa(e)
    }
}

struct MockParams<'l> {
    id: usize,
    n: usize,
    k: usize,
    p: usize,
    t: usize,
    fail_fold: Option<usize>,
    log: &'l Mutex<Vec<String>>,
    fits: &'l Mutex<Vec<(usize, usize)>>, // (model, fold) in call order
}

struct MockModel {
    id: usize,
    fold: usize,
    digest: u64,
    p: usize,
    t: usize,
}

fn mix(a: u64) -> u64 {
    let mut z = a.wrapping_add(0x9E3779B97F4A7C15);
    z = (z ^ (z >> 30)).wrapping_mul(0xBF58476D1CE4E5B9);
    z = (z ^ (z >> 27)).wrapping_mul(0x94D049BB133111EB);
    z ^ (z >> 31)
}
fn digest_ids(ids: &[usize]) -> u64 {
    // order-insensitive
    ids.iter().fold(0u64, |a, i| a.wrapping_add(mix(*i as u64)))
}
/// the mock prediction for (model, fold digest, row id, column)
fn mock_pred(id: usize, digest: u64, row: usize, col: usize) -> f64 {
    let h = mix(digest ^ mix((id as u64) << 32 | (row as u64) << 8 | col as u64));
    (h % 2001) as f64 / 100.0 - 10.0
}

impl<'l, 'c, D: Dimension + ndarray::RemoveAxis> Fit<ArrayView2<'c, f64>, ArrayView<'c, f64, D>, MockErr>
    for MockParams<'l>
{
    type Object = MockModel;
    fn fit(
        &self,
        ds: &DatasetBase<ArrayView2<'c, f64>, ArrayView<'c, f64, D>>,
    ) -> Result<MockModel, MockErr> {
        let ids = match decode(ds.records().view(), ds.targets().view(), self.p, self.t) {
            Ok(ids) => ids,
            Err(e) => {
                self.log
                    .lock()
                    .unwrap()
                    .push(format!("model {} training set: {e}", self.id));
                vec![]
            }
        };
        // which fold is this? the block missing from the ids
        let fs = self.n / self.k;
        let mut present = vec![false; self.n];
        for i in &ids {
            if *i < self.n {
                present[*i] = true;
            }
        }
        let missing: Vec<usize> = (0..self.n).filter(|i| !present[*i]).collect();
        let fold = if fs > 0 && !missing.is_empty() { missing[0] / fs } else { usize::MAX };
        if fold == usize::MAX || check_fold_pair(fold, self.n, self.k, &ids, &missing).is_err() {
            self.log.lock().unwrap().push(format!(
                "model {} was fitted on ids whose complement {:?} is not one validation block (n={}, k={})",
                self.id, missing, self.n, self.k
            ));
        }
        self.fits.lock().unwrap().push((self.id, fold));
        if self.fail_fold == Some(fold) {
            return Err(MockErr::FitFailed {
                model: self.id,
                fold,
            });
        }
        Ok(MockModel {
            id: self.id,
            fold,
            digest: digest_ids(&ids),
            p: self.p,
            t: self.t,
        })
    }
}

/// Models with an odd id build their prediction *on top of* the buffer their own `default_target`
/// hands out (filled with a model-specific base value), the way an accumulating predictor does;
/// a buffer that comes from somewhere else (another model, a previous prediction) shows in the score.
fn mock_base(id: usize) -> f64 {
    if id % 2 == 1 { 1024.0 * (id as f64 + 1.0) } else { 0.0 }
}

impl<'a> PredictInplace<ArrayView2<'a, f64>, Array1<f64>> for MockModel {
    fn predict_inplace<'b>(&'b self, x: &'b ArrayView2<'a, f64>, y: &mut Array1<f64>) {
        for r in 0..x.nrows() {
            let row = (x[[r, 0]] as usize) / self.p;
            if self.id % 2 == 1 {
                y[r] = (y[r] - mock_base(self.id)) + mock_pred(self.id, self.digest, row, 0);
            } else {
                y[r] = mock_pred(self.id, self.digest, row, 0);
            }
        }
    }
    fn default_target(&self, x: &ArrayView2<'a, f64>) -> Array1<f64> {
        Array1::from_elem(x.nrows(), mock_base(self.id))
    }
}
impl<'a> PredictInplace<ArrayView2<'a, f64>, Array2<f64>> for MockModel {
    fn predict_inplace<'b>(&'b self, x: &'b ArrayView2<'a, f64>, y: &mut Array2<f64>) {
        for r in 0..x.nrows() {
            let row = (x[[r, 0]] as usize) / self.p;
            for c in 0..self.t {
                if self.id % 2 == 1 {
                    y[[r, c]] = (y[[r, c]] - mock_base(self.id)) + mock_pred(self.id, self.digest, row, c);
                } else {
                    y[[r, c]] = mock_pred(self.id, self.digest, row, c);
                }
            }
        }
    }
    fn default_target(&self, x: &ArrayView2<'a, f64>) -> Array2<f64> {
        Array2::from_elem((x.nrows(), self.t), mock_base(self.id))
    }
}

/// order-sensitive evaluation: sum_pos (pos+1) * (pred - 0.37*truth_tag)
fn eval_score(pred: &[f64], truth: &[f64]) -> f64 {
    pred.iter()
        .zip(truth.iter())
        .enumerate()
        .map(|(pos, (p, t))| (pos + 1) as f64 * (p - 0.37 * t))
        .sum()
}

/// expected cross-validation scores from the definition: [model][col]
fn expected_scores(n: usize, k: usize, t: usize, models: usize) -> Vec<Vec<f64>> {
    let fs = n / k;
    let mut out = vec![vec![0.0; t]; models];
    for (m, row) in out.iter_mut().enumerate() {
        for (c, cell) in row.iter_mut().enumerate() {
            let mut acc = 0.0;
            for f in 0..k {
                let train: Vec<usize> =
                    (0..n).filter(|i| *i < f * fs || *i >= (f + 1) * fs).collect();
                let dg = digest_ids(&train);
                let pred: Vec<f64> = (f * fs..(f + 1) * fs)
                    .map(|i| mock_pred(m, dg, i, c))
                    .collect();
                let truth: Vec<f64> = (f * fs..(f + 1) * fs).map(|i| (i * t + c) as f64).collect();
                acc += eval_score(&pred, &truth);
            }
            *cell = acc / k as f64;
        }
    }
    out
}

fn same_bits<D: Dimension>(a: &Array<f64, D>, b: &Array<f64, D>) -> bool {
    a.shape() == b.shape()
        && a.strides() == b.strides()
        && a.iter().zip(b.iter()).all(|(x, y)| x.to_bits() == y.to_bits())
}

// ---------------------------------------------------------------- single-configuration checks

/// `fold(k)` on an owned dataset or a view, single or multi-column targets
fn check_fold(n: usize, k: usize, p: usize, t: usize, multi: bool, view: bool, forder: bool) -> Outcome {
    let rec = tagged_records(n, p, forder);
    macro_rules! body {
        ($tar:expr) => {{
            let tar = $tar;
            let ds = Dataset::new(rec.clone(), tar.clone());
            let folds = if view {
                let v: DatasetView<f64, f64, _> = ds.view();
                guarded(|| v.fold(k))
            } else {
                guarded(|| ds.fold(k))
            };
            let folds = match folds {
                Ok(f) => f,
                Err(msg) => {
                    let sig = if multi && t >= 2 {
                        "C01/fold/panic-multi-target"
                    } else {
                        "C01/fold/panic"
                    };
                    bail!(sig, {"op":"fold","n":n,"k":k,"p":p,"t":t,"multi":multi,"view":view,"panic":msg});
                }
            };
            ensure!(folds.len() == k, "C01/fold/count",
                {"n":n,"k":k,"returned":folds.len()});
            for (f, (train, valid)) in folds.iter().enumerate() {
                let tr = decode(train.records().view(), train.targets().view(), p, t);
                let va = decode(valid.records().view(), valid.targets().view(), p, t);
                let (tr, va) = match (tr, va) {
                    (Ok(a), Ok(b)) => (a, b),
                    (Err(e), _) | (_, Err(e)) => {
                        bail!("C01/fold/attachment", {"n":n,"k":k,"p":p,"t":t,"fold":f,"why":e})
                    }
                };
                if let Err(e) = check_fold_pair(f, n, k, &tr, &va) {
                    bail!("C01/fold/partition", {"n":n,"k":k,"p":p,"t":t,"multi":multi,"view":view,"why":e});
                }
            }
            // the source dataset is untouched by `fold`
            ensure!(same_bits(ds.records(), &rec) && same_bits(ds.targets(), &tar),
                "C01/fold/source-modified", {"n":n,"k":k});
        }};
    }
    if multi {
        body!(tagged_t2(n, t));
    } else {
        body!(tagged_t1(n));
    }
    held(n % k != 0 || k != n, format!("fold n={n} k={k} p={p} t={t} m={multi} v={view} f={forder}"))
}

/// in-place `iter_fold`
fn check_iter_fold(n: usize, k: usize, p: usize, t: usize, multi: bool) -> Outcome {
    check_iter_fold_layout(n, k, p, t, multi, false, false)
}

/// in-place `iter_fold`; with column-major records (`rec_f`) or targets (`tar_f`) the documented
/// panic ("data not stored contiguously and in standard order") is as acceptable as a correct
/// result - a silently mis-paired fold is not
fn check_iter_fold_layout(n: usize, k: usize, p: usize, t: usize, multi: bool, rec_f: bool, tar_f: bool) -> Outcome {
    let rec = tagged_records(n, p, rec_f);
    let nonstd = (rec_f && !rec.is_standard_layout()) || (tar_f && multi && t >= 2 && n >= 2);
    macro_rules! body {
        ($tar:expr) => {{
            let tar = $tar;
            let mut ds = Dataset::new(rec.clone(), tar.clone());
            let res: Result<Vec<(Result<Vec<usize>, String>, Result<Vec<usize>, String>)>, String> =
                guarded(|| {
                    ds.iter_fold(k, |train| decode(train.records().view(), train.targets().view(), p, t))
                        .map(|(tr, valid)| {
                            (tr, decode(valid.records().view(), valid.targets().view(), p, t))
                        })
                        .collect()
                });
            let res = match res {
                Ok(r) => r,
                Err(_) if nonstd => {
                    // documented refusal; the dataset must still be what it was
                    ensure!(same_bits(ds.records(), &rec) && same_bits(ds.targets(), &tar),
                        "C01/iter_fold/not-restored-after-refusal", {"n":n,"k":k,"p":p,"t":t});
                    return held(false, format!("iter_fold refused n={n} k={k} p={p} t={t} rf={rec_f} tf={tar_f}"));
                }
                Err(msg) => bail!("C01/iter_fold/panic", {"n":n,"k":k,"p":p,"t":t,"panic":msg}),
            };
            ensure!(res.len() == k, "C01/iter_fold/count", {"n":n,"k":k,"returned":res.len()});
            for (f, (tr, va)) in res.into_iter().enumerate() {
                let (tr, va) = match (tr, va) {
                    (Ok(a), Ok(b)) => (a, b),
                    (Err(e), _) | (_, Err(e)) => {
                        bail!("C01/iter_fold/attachment", {"n":n,"k":k,"p":p,"t":t,"fold":f,"why":e})
                    }
                };
                if let Err(e) = check_fold_pair(f, n, k, &tr, &va) {
                    bail!("C01/iter_fold/partition", {"n":n,"k":k,"p":p,"t":t,"why":e});
                }
            }
            ensure!(same_bits(ds.records(), &rec) && same_bits(ds.targets(), &tar),
                "C01/iter_fold/not-restored",
                {"n":n,"k":k,"p":p,"t":t,"records_after":ds.records().iter().cloned().collect::<Vec<f64>>()});
        }};
    }
    if multi {
        body!(if tar_f { tagged_t2_f(n, t) } else { tagged_t2(n, t) });
    } else {
        body!(tagged_t1(n));
    }
    held(n % k != 0 || k != n, format!("iter_fold n={n} k={k} p={p} t={t} m={multi} rf={rec_f} tf={tar_f}"))
}

#[derive(Clone, Copy, Debug, PartialEq)]
enum Inject {
    None,
    Fit { model: usize, fold: usize },
    Eval { fold: usize },
}

/// `cross_validate` (multi) / `cross_validate_single` / `cross_validate` on Ix1
fn check_cv(n: usize, k: usize, p: usize, t: usize, form: u8, nmodels: usize, inj: Inject) -> Outcome {
    let rec = tagged_records(n, p, false);
    let log = Mutex::new(vec![]);
    let fits = Mutex::new(vec![]);
    let models: Vec<MockParams> = (0..nmodels)
        .map(|id| MockParams {
            id,
            n,
            k,
            p,
            t,
            fail_fold: match inj {
                Inject::Fit { model, fold } if model == id => Some(fold),
                _ => None,
            },
            log: &log,
            fits: &fits,
        })
        .collect();
    let fs = n / k;
    let eval_fail = match inj {
        Inject::Eval { fold } => Some(fold),
        _ => None,
    };
    let expected = expected_scores(n, k, t, nmodels);
    // returns Ok(scores[model][col]) or Err(debug string)
    let desc = json!({"n":n,"k":k,"p":p,"t":t,"form":form,"models":nmodels,"inject":format!("{inj:?}")});
    let (result, rec_after_ok): (Result<Vec<Vec<f64>>, MockErr>, bool) = match form {
        // multi-target cross_validate
        0 => {
            let tar = tagged_t2(n, t);
            let mut ds = Dataset::new(rec.clone(), tar.clone());
            let r = guarded(|| {
                ds.cross_validate(k, &models, |pred: &Array2<f64>, truth: &ArrayView<f64, Ix2>| {
                    let fold = (truth[[0, 0]] as usize / t) / fs;
                    if eval_fail == Some(fold) {
                        return Err(linfa::Error::Parameters(format!("eval-fail fold {fold}")));
                    }
                    Ok(Array1::from_iter((0..t).map(|c| {
                        eval_score(
                            &pred.column(c).to_vec(),
                            &truth.column(c).to_vec(),
                        )
                    })))
                })
            });
            let r = match r {
                Ok(r) => r,
                Err(msg) => bail!("C01/cross_validate/panic", {"case":desc,"panic":msg}),
            };
            let ok = same_bits(ds.records(), &rec) && same_bits(ds.targets(), &tar);
            (
                r.map(|a: Array2<f64>| a.outer_iter().map(|r| r.to_vec()).collect()),
                ok,
            )
        }
        // single-target: cross_validate_single (form 1) or cross_validate with arr0 (form 2)
        _ => {
            let tar = tagged_t1(n);
            let mut ds = Dataset::new(rec.clone(), tar.clone());
            let evalf = |pred: &Array1<f64>, truth: &ArrayView<f64, Ix1>| {
                let fold = (truth[0] as usize) / fs;
                if eval_fail == Some(fold) {
                    return Err(linfa::Error::Parameters(format!("eval-fail fold {fold}")));
                }
                Ok(eval_score(&pred.to_vec(), &truth.to_vec()))
            };
            let r = if form == 1 {
                guarded(|| ds.cross_validate_single(k, &models, evalf))
            } else {
                guarded(|| {
                    ds.cross_validate(k, &models, |a, b| evalf(a, b).map(ndarray::arr0))
                })
            };
            let r = match r {
                Ok(r) => r,
                Err(msg) => bail!("C01/cross_validate/panic", {"case":desc,"panic":msg}),
            };
            let ok = same_bits(ds.records(), &rec) && same_bits(ds.targets(), &tar);
            (r.map(|a: Array1<f64>| a.iter().map(|v| vec![*v]).collect()), ok)
        }
    };
    ensure!(rec_after_ok, "C01/cross_validate/not-restored", {"case":desc});
    let log = log.lock().unwrap();
    ensure!(log.is_empty(), "C01/cross_validate/training-set", {"case":desc,"why":log.clone()});
    match (inj, result) {
        (Inject::None, Ok(scores)) => {
            ensure!(scores.len() == nmodels && scores.iter().all(|r| r.len() == expected[0].len()),
                "C01/cross_validate/shape", {"case":desc,"got":scores});
            for m in 0..nmodels {
                for c in 0..expected[m].len() {
                    let e = expected[m][c];
                    let g = scores[m][c];
                    // noise floor: k*fs terms of magnitude <= fs*(10+0.37*n*t)
                    let scale = (fs * fs) as f64 * (10.0 + 0.37 * (n * t) as f64) + 1.0;
                    if !((e - g).abs() <= 64.0 * f64::EPSILON * scale) {
                        bail!("C01/cross_validate/score", {"case":desc,"model":m,"col":c,"expected":e,"got":g});
                    }
                }
            }
        }
        (Inject::None, Err(e)) => {
            bail!("C01/cross_validate/spurious-error", {"case":desc,"err":format!("{e}")})
        }
        (Inject::Fit { model, fold }, r) => match r {
            Err(MockErr::FitFailed { model: m, fold: f }) if m == model && f == fold => {}
            other => bail!("C01/cross_validate/fit-error-lost",
                {"case":desc,"got":format!("{:?}", other.map(|_| "Ok(scores)"))}),
        },
        (Inject::Eval { fold }, r) => match r {
            Err(MockErr::Linfa(linfa::Error::Parameters(s))) if s == format!("eval-fail fold {fold}") => {}
            other => bail!("C01/cross_validate/eval-error-lost",
                {"case":desc,"got":format!("{:?}", other.map(|_| "Ok(scores)"))}),
        },
    }
    held(
        n % k != 0 || k != n,
        format!("cv n={n} k={k} p={p} t={t} form={form} m={nmodels} inj={inj:?}"),
    )
}

pub fn run(ctx: &Ctx) {
    ctx.set_rule(
        "identity-tagged datasets; every (n,k) with 2<=k<=n<=N enumerated for fold / iter_fold / \
         cross_validate x feature counts x target shapes; random larger n. A case is non-trivial \
         unless k == n and n mod k == 0 at once (every block a single row); distinct = distinct \
         (operation, n, k, p, t, form, injection) tuples.",
    );
    ctx.assume("row identity is carried by integer-valued f64 tags; element types other than f64 share the same generic code path");
    let nmax: usize = ctx.tier.pick(40, 110);
    // enumerate all (n,k)
    let mut nk = vec![];
    for n in 2..=nmax {
        for k in 2..=n {
            nk.push((n, k));
        }
    }
    let total = nk.len() as u64;
    ctx.set_exhaustive(&format!("(n,k) with 2<=k<=n<={nmax}"), true);
    let nk = &nk;
    ctx.family("fold-owned-ix1", total * 3, |c| {
        let (n, k) = nk[(c.idx % total) as usize];
        let p = 1 + (c.idx / total) as usize;
        c.note("n", json!(n));
        c.note("k", json!(k));
        c.note("p", json!(p));
        check_fold(n, k, p, 1, false, false, false)
    });
    ctx.family("fold-view-ix1", total, |c| {
        let (n, k) = nk[c.idx as usize];
        let p = 1 + (n + k) % 3;
        c.note("n", json!(n));
        c.note("k", json!(k));
        check_fold(n, k, p, 1, false, true, (n + k) % 2 == 0)
    });
    ctx.family("fold-ix2", total * 3, |c| {
        let (n, k) = nk[(c.idx % total) as usize];
        let t = 1 + (c.idx / total) as usize;
        let p = 1 + (n + 2 * k) % 3;
        c.note("n", json!(n));
        c.note("k", json!(k));
        c.note("t", json!(t));
        check_fold(n, k, p, t, true, (n + k) % 2 == 1, false)
    });
    ctx.family("iter_fold", total * 4, |c| {
        let (n, k) = nk[(c.idx % total) as usize];
        let v = (c.idx / total) as usize; // 0: ix1, 1..3: ix2 with t=v
        let p = 1 + (n + k + v) % 3;
        c.note("n", json!(n));
        c.note("k", json!(k));
        c.note("variant", json!(v));
        if v == 0 {
            check_iter_fold(n, k, p, 1, false)
        } else {
            check_iter_fold(n, k, p, v, true)
        }
    });
    // memory layouts the in-place fold documents to refuse, and degenerate widths (no feature
    // columns / no target columns): refusal or a correct fold, never a mis-paired one
    ctx.family("iter_fold-layouts", total * 3, |c| {
        let (n, k) = nk[(c.idx % total) as usize];
        let v = (c.idx / total) as usize;
        let (p, t) = (2 + (n + k) % 2, 2 + (n + 2 * k) % 2);
        c.note("n", json!(n));
        c.note("k", json!(k));
        c.note("layout", json!(["targets-column-major", "records-column-major", "both-column-major"][v]));
        check_iter_fold_layout(n, k, p, t, true, v >= 1, v != 1)
    });
    ctx.family("degenerate-widths", total * 4, |c| {
        let (n, k) = nk[(c.idx % total) as usize];
        let v = (c.idx / total) as usize;
        c.note("n", json!(n));
        c.note("k", json!(k));
        c.note("variant", json!(["iter_fold-no-features", "iter_fold-no-target-columns", "fold-no-features", "fold-no-target-columns"][v]));
        match v {
            0 => check_iter_fold(n, k, 0, 1 + (n + k) % 2, (n + k) % 2 == 1),
            1 => check_iter_fold(n, k, 1 + (n + k) % 3, 0, true),
            2 => check_fold(n, k, 0, 1 + (n + k) % 2, (n + k) % 2 == 1, k % 2 == 0, false),
            _ => check_fold(n, k, 1 + (n + k) % 3, 0, true, k % 2 == 0, false),
        }
    });
    ctx.family("cross_validate", total * 3, |c| {
        let (n, k) = nk[(c.idx % total) as usize];
        let form = (c.idx / total) as u8;
        let t = if form == 0 { 1 + c.rng.gen_range(0..3) } else { 1 };
        let p = 1 + c.rng.gen_range(0..3);
        let nm = 1 + c.rng.gen_range(0..4);
        c.note("n", json!(n));
        c.note("k", json!(k));
        c.note("form", json!(form));
        c.note("models", json!(nm));
        check_cv(n, k, p, t, form, nm, Inject::None)
    });
    ctx.family("cross_validate-failure-injection", total * 2, |c| {
        let (n, k) = nk[(c.idx % total) as usize];
        let form = c.rng.gen_range(0..3u8);
        let t = if form == 0 { 1 + c.rng.gen_range(0..3) } else { 1 };
        let p = 1 + c.rng.gen_range(0..3);
        let nm = 1 + c.rng.gen_range(0..4);
        let fold = c.rng.gen_range(0..k);
        let inj = if c.idx / total == 0 {
            Inject::Fit {
                model: c.rng.gen_range(0..nm),
                fold,
            }
        } else {
            Inject::Eval { fold }
        };
        c.note("n", json!(n));
        c.note("k", json!(k));
        c.note("inject", json!(format!("{inj:?}")));
        check_cv(n, k, p, t, form, nm, inj)
    });
    // random larger shapes
    let nrand = ctx.tier.pick(150, 1500);
    ctx.family("random-large", nrand, |c| {
        let n = c.rng.gen_range(25..ctx.tier.pick(600, 3000));
        let k = match c.rng.gen_range(0..4) {
            0 => c.rng.gen_range(2..8),
            1 => c.rng.gen_range(2..=n),
            2 => n / 2 + c.rng.gen_range(0..3),
            _ => n - c.rng.gen_range(0..3),
        }
        .clamp(2, n);
        let p = 1 + c.rng.gen_range(0..4);
        let t = 1 + c.rng.gen_range(0..3);
        c.note("n", json!(n));
        c.note("k", json!(k));
        let op = c.rng.gen_range(0..4);
        c.note("op", json!(op));
        match op {
            0 => {
                let multi = c.rng.gen_bool(0.5);
                let t = if multi { t } else { 1 };
                check_fold(n, k, p, t, multi, c.rng.gen_bool(0.5), c.rng.gen_bool(0.3))
            }
            1 => check_iter_fold(n, k, p, t, t > 1 || c.rng.gen_bool(0.5)),
            _ => {
                // keep k small enough that k fits of up to 4 models stay cheap
                let k = k.min(40);
                let form = c.rng.gen_range(0..3u8);
                let t = if form == 0 { t } else { 1 };
                check_cv(n, k, p, t, form, 1 + c.rng.gen_range(0..3), Inject::None)
            }
        }
    });
    // Miri lane (thorough): the slice-swapping in-place fold on every (n,k) with n <= 6
    miri_lane(ctx, "c01", 1);
}
