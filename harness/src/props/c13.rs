//! C13 — SVM solutions satisfy the dual feasibility and KKT conditions they publish.
//!
//! Oracle: from the public `alpha`, `rho`, the kernel method and the training data the harness
//! recomputes (in f64, with its own kernel functions) the decision values and checks dual
//! feasibility + KKT for the five problem kinds, plus decision value / label / Platt / nsupport
//! consistency on training and fresh points.
use crate::fw::*;
use crate::gen;
use linfa::dataset::Pr;
use linfa::traits::{Fit, Predict};
use linfa::{Dataset, DatasetBase};
use linfa_svm::Svm;
use ndarray::{Array1, Array2, ArrayView1};
use rand::Rng as _;
use serde_json::{json, Value};

#[derive(Clone, Copy, Debug)]
enum Kern {
    Linear,
    Gauss(f64),
    Poly(f64, f64),
}

fn kval(k: Kern, a: ArrayView1<f64>, b: ArrayView1<f64>) -> f64 {
    match k {
        Kern::Linear => a.iter().zip(b.iter()).map(|(x, y)| x * y).sum(),
        Kern::Gauss(e) => {
            let d: f64 = a.iter().zip(b.iter()).map(|(x, y)| (x - y) * (x - y)).sum();
            (-d / e).exp()
        }
        Kern::Poly(c, d) => {
            let s: f64 = a.iter().zip(b.iter()).map(|(x, y)| x * y).sum();
            (s + c).powf(d)
        }
    }
}

#[derive(Clone, Copy, Debug)]
enum Kind {
    CSvc { cpos: f64, cneg: f64 },
    NuSvc { nu: f64 },
    OneClass { nu: f64 },
    EpsSvr { c: f64, tube: f64 },
    NuSvr { nu: f64, c: f64 },
}

/// float type abstraction: f32 / f64 (regression `Fit` impls exist only for the concrete types)
trait Fl: linfa::Float + serde::Serialize {
    fn fit_reg(
        p: linfa_svm::SvmParams<Self, Self>,
        ds: &Dataset<Self, Self, ndarray::Ix1>,
    ) -> Result<Svm<Self, Self>, linfa_svm::SvmError>;
    fn predict_reg(m: &Svm<Self, Self>, x: &Array2<Self>) -> Array1<Self>;
    const NAME: &'static str;
}
impl Fl for f64 {
    fn fit_reg(
        p: linfa_svm::SvmParams<f64, f64>,
        ds: &Dataset<f64, f64, ndarray::Ix1>,
    ) -> Result<Svm<f64, f64>, linfa_svm::SvmError> {
        p.fit(ds)
    }
    fn predict_reg(m: &Svm<f64, f64>, x: &Array2<f64>) -> Array1<f64> {
        m.predict(x)
    }
    const NAME: &'static str = "f64";
}
impl Fl for f32 {
    fn fit_reg(
        p: linfa_svm::SvmParams<f32, f32>,
        ds: &Dataset<f32, f32, ndarray::Ix1>,
    ) -> Result<Svm<f32, f32>, linfa_svm::SvmError> {
        p.fit(ds)
    }
    fn predict_reg(m: &Svm<f32, f32>, x: &Array2<f32>) -> Array1<f32> {
        m.predict(x)
    }
    const NAME: &'static str = "f32";
}

fn to_f<F: Fl>(x: &Array2<f64>) -> Array2<F> {
    x.mapv(|v| F::cast(v))
}
fn to64<F: Fl>(v: F) -> f64 {
    v.to_f64().unwrap()
}

struct Problem {
    x: Array2<f64>,      // training records (values exactly representable in F)
    yb: Vec<bool>,       // classification labels
    yr: Vec<f64>,        // regression targets
    fresh: Array2<f64>,  // fresh query points
    kern: Kern,
    kind: Kind,
    eps: f64,
    shrinking: bool,
    /// memory layout of the training records: 0 standard, 1 column-major, 2 rows stored back to
    /// front behind a negative row stride
    layout: u8,
    /// the parameter set was configured for another problem kind before the final setter call
    history: bool,
}

struct Published {
    alpha: Vec<f64>,
    rho: f64,
    /// model decision values (weighted_sum - rho) on training rows then fresh rows
    dec_model: Vec<f64>,
    /// predicted labels / values / probabilities on training rows then fresh rows
    pred_bool: Option<Vec<bool>>,
    pred_val: Option<Vec<f64>>,
    pred_pr: Option<Vec<f64>>,
    nsupport: usize,
    display: String,
    r_serialised: Option<f64>,
    /// (index j, largest |change| of a decision value) after a zero coefficient alpha_j in front of a
    /// support vector was replaced by 50 eps_F - a value fits do publish (it is below the solver's
    /// support-vector threshold 100 eps_F) and that must stay without effect
    subthreshold: Option<(usize, f64)>,
}

fn apply_kernel<F: Fl, T>(p: linfa_svm::SvmParams<F, T>, k: Kern) -> linfa_svm::SvmParams<F, T> {
    match k {
        Kern::Linear => p.linear_kernel(),
        Kern::Gauss(e) => p.gaussian_kernel(F::cast(e)),
        Kern::Poly(c, d) => p.polynomial_kernel(F::cast(c), F::cast(d)),
    }
}

/// Runs the real fit and collects everything the model publishes.
fn run_fit<F: Fl>(pb: &Problem, want_pr: bool) -> Result<Published, String> {
    let x: Array2<F> = to_f(&pb.x);
    let fresh: Array2<F> = to_f(&pb.fresh);
    // the same logical matrix in the requested memory layout (predictions below use standard layout)
    let x_train: Array2<F> = match pb.layout {
        1 => {
            let mut t = Array2::<F>::zeros((x.ncols(), x.nrows()));
            t.assign(&x.t());
            t.reversed_axes()
        }
        2 => {
            let mut r = x.slice(ndarray::s![..;-1, ..]).to_owned();
            r.invert_axis(ndarray::Axis(0));
            r
        }
        _ => x.clone(),
    };
    debug_assert!(x_train == x);
    let mut all = Array2::<F>::zeros((x.nrows() + fresh.nrows(), x.ncols()));
    all.slice_mut(ndarray::s![..x.nrows(), ..]).assign(&x);
    all.slice_mut(ndarray::s![x.nrows().., ..]).assign(&fresh);
    let eps = F::cast(pb.eps);
    fn collect<F: Fl, T>(m: &mut Svm<F, T>, all: &Array2<F>) -> (Vec<f64>, f64, Vec<f64>, usize, String, Option<f64>, Option<(usize, f64)>) {
        let alpha: Vec<f64> = m.alpha.iter().map(|a| to64(*a)).collect();
        let dec: Vec<f64> = all
            .outer_iter()
            .map(|r| to64(m.weighted_sum(&r) - m.rho))
            .collect();
        let last_sv = alpha.iter().rposition(|a| a.abs() > 100.0 * to64(F::epsilon()));
        let sub = last_sv.and_then(|l| alpha[..l].iter().position(|a| *a == 0.0)).map(|j| {
            m.alpha[j] = F::cast(50.0) * F::epsilon();
            let shift = all
                .outer_iter()
                .zip(dec.iter())
                .map(|(r, d)| (to64(m.weighted_sum(&r) - m.rho) - d).abs())
                .fold(0.0f64, |a, b| if b.is_nan() { f64::INFINITY } else { a.max(b) });
            m.alpha[j] = F::zero();
            (j, shift)
        });
        let r = serde_json::to_value(&*m)
            .ok()
            .and_then(|v| v.get("r").and_then(|r| r.as_f64()));
        (alpha, to64(m.rho), dec, m.nsupport(), format!("{m}"), r, sub)
    }
    match pb.kind {
        Kind::CSvc { .. } | Kind::NuSvc { .. } => {
            let ds = Dataset::new(x_train.clone(), Array1::from(pb.yb.clone()));
            macro_rules! params {
                ($t:ty) => {{
                    let p = Svm::<F, $t>::params().eps(eps).shrinking(pb.shrinking);
                    let p = apply_kernel(p, pb.kern);
                    // every other parameter set has a history: it was configured for the other
                    // problem kind first - the last setter decides
                    match pb.kind {
                        Kind::CSvc { cpos, cneg } => {
                            let p = if pb.history { p.nu_weight(F::cast(0.25)) } else { p };
                            p.pos_neg_weights(F::cast(cpos), F::cast(cneg))
                        }
                        Kind::NuSvc { nu } => {
                            let p = if pb.history { p.pos_neg_weights(F::cast(3.0), F::cast(0.5)) } else { p };
                            p.nu_weight(F::cast(nu))
                        }
                        _ => unreachable!(),
                    }
                }};
            }
            if want_pr {
                let mut m: Svm<F, Pr> = params!(Pr).fit(&ds).map_err(|e| format!("fit error: {e}"))?;
                let (alpha, rho, dec_model, nsupport, display, r, subthreshold) = collect(&mut m, &all);
                let pr: Array1<Pr> = m.predict(&all);
                Ok(Published {
                    alpha, rho, dec_model,
                    pred_bool: None, pred_val: None,
                    pred_pr: Some(pr.iter().map(|p| **p as f64).collect()),
                    nsupport, display, r_serialised: r, subthreshold,
                })
            } else {
                let mut m: Svm<F, bool> = params!(bool).fit(&ds).map_err(|e| format!("fit error: {e}"))?;
                let (alpha, rho, dec_model, nsupport, display, r, subthreshold) = collect(&mut m, &all);
                let pb_: Array1<bool> = m.predict(&all);
                Ok(Published {
                    alpha, rho, dec_model,
                    pred_bool: Some(pb_.to_vec()), pred_val: None, pred_pr: None,
                    nsupport, display, r_serialised: r, subthreshold,
                })
            }
        }
        Kind::OneClass { nu } => {
            let ds = DatasetBase::from(x_train.clone());
            let p = Svm::<F, Pr>::params().eps(eps).shrinking(pb.shrinking).nu_weight(F::cast(nu));
            let p = apply_kernel(p, pb.kern);
            let mut m: Svm<F, bool> = p.fit(&ds).map_err(|e| format!("fit error: {e}"))?;
            let (alpha, rho, dec_model, nsupport, display, r, subthreshold) = collect(&mut m, &all);
            let pb_: Array1<bool> = m.predict(&all);
            Ok(Published {
                alpha, rho, dec_model,
                pred_bool: Some(pb_.to_vec()), pred_val: None, pred_pr: None,
                nsupport, display, r_serialised: r, subthreshold,
            })
        }
        Kind::EpsSvr { .. } | Kind::NuSvr { .. } => {
            let y: Array1<F> = Array1::from_iter(pb.yr.iter().map(|v| F::cast(*v)));
            let ds = Dataset::new(x_train.clone(), y);
            let p = Svm::<F, F>::params().eps(eps).shrinking(pb.shrinking);
            let p = apply_kernel(p, pb.kern);
            let p = match pb.kind {
                Kind::EpsSvr { c, tube } => {
                    let p = if pb.history { p.nu_svr(F::cast(0.4), Some(F::cast(2.0))) } else { p };
                    p.c_svr(F::cast(c), Some(F::cast(tube)))
                }
                Kind::NuSvr { nu, c } => {
                    let p = if pb.history { p.c_svr(F::cast(2.0), Some(F::cast(0.3))) } else { p };
                    p.nu_svr(F::cast(nu), Some(F::cast(c)))
                }
                _ => unreachable!(),
            };
            let mut m = F::fit_reg(p, &ds).map_err(|e| format!("fit error: {e}"))?;
            let (alpha, rho, dec_model, nsupport, display, r, subthreshold) = collect(&mut m, &all);
            let pv = F::predict_reg(&m, &all);
            Ok(Published {
                alpha, rho, dec_model,
                pred_bool: None,
                pred_val: Some(pv.iter().map(|v| to64(*v)).collect()),
                pred_pr: None,
                nsupport, display, r_serialised: r, subthreshold,
            })
        }
    }
}

/// The oracle. `epsf` = machine epsilon of the element type linfa computed in.
fn judge(c: &mut Case, pb: &Problem, pu: &Published, epsf: f64, fname: &str) -> Outcome {
    let n = pb.x.nrows();
    let desc = json!({"kind": format!("{:?}", pb.kind), "kernel": format!("{:?}", pb.kern), "n": n,
        "d": pb.x.ncols(), "eps": pb.eps, "shrinking": pb.shrinking, "float": fname});
    ensure!(pu.alpha.len() == n, "C13/alpha/length", {"case": desc, "got": pu.alpha.len()});
    if let (Kind::NuSvc { .. }, Some(rs)) = (pb.kind, pu.r_serialised) {
        if !(rs > 0.0) {
            return inconclusive("nu-svc: degenerate solution (margin r <= 0 up to rounding)");
        }
    }
    ensure!(pu.alpha.iter().all(|a| a.is_finite()), "C13/alpha/non-finite",
        {"case": desc, "rho": format!("{}", pu.rho), "r": format!("{:?}", pu.r_serialised),
         "alpha_head": pu.alpha.iter().take(24).map(|a| format!("{a}")).collect::<Vec<_>>(),
         "labels_head": pb.yb.iter().take(24).collect::<Vec<_>>()});
    if let Kind::OneClass { .. } = pb.kind {
        if !pu.rho.is_finite() && pu.alpha.iter().all(|a| *a >= 1.0 - 1e3 * epsf) {
            // nu*n coefficients of value 1 are forced: every sample is a bounded support vector and
            // any rho >= max f satisfies the KKT conditions; linfa (like libsvm) reports +inf.
            return inconclusive("one-class: every coefficient at its upper bound, rho undetermined");
        }
    }
    ensure!(pu.rho.is_finite(), "C13/rho/non-finite", {"case": desc, "rho": format!("{}", pu.rho)});
    if !pu.display.starts_with("Exited after") {
        return inconclusive(format!("solver exit reason is not 'threshold': {}", pu.display));
    }
    // kernel matrix and oracle decision values, f64
    let mut kmax: f64 = 0.0;
    let mut f = vec![0.0f64; n + pb.fresh.nrows()];
    let mut fabs = vec![0.0f64; n + pb.fresh.nrows()]; // sum |alpha_j K_ij| for the noise floor
    // mass of the coefficients below the documented support-vector threshold 100*eps_F, which the
    // model drops from its decision function ("around 1e-5 for f32 and 2e-14 for f64")
    let mut fdrop = vec![0.0f64; n + pb.fresh.nrows()];
    for (q, fq) in f.iter_mut().enumerate() {
        let row = if q < n { pb.x.row(q) } else { pb.fresh.row(q - n) };
        let mut s = 0.0;
        let mut sa = 0.0;
        for j in 0..n {
            if pu.alpha[j] != 0.0 {
                let k = kval(pb.kern, pb.x.row(j), row);
                kmax = kmax.max(k.abs());
                s += pu.alpha[j] * k;
                sa += (pu.alpha[j] * k).abs();
                if pu.alpha[j].abs() <= 100.0 * epsf * (1.0 + 1e-6) {
                    fdrop[q] += (pu.alpha[j] * k).abs();
                }
            }
        }
        *fq = s - pu.rho;
        fabs[q] = sa + pu.rho.abs();
    }
    // --- a coefficient below the support-vector threshold stays without effect on the decision function
    if let Some((j, shift)) = pu.subthreshold {
        // linfa either ignores it (|alpha| <= 100 eps_F) or adds 50 eps_F K(x_j, x): both are below
        let kj = (0..f.len())
            .map(|q| kval(pb.kern, pb.x.row(j), if q < n { pb.x.row(q) } else { pb.fresh.row(q - n) }).abs())
            .fold(0.0f64, f64::max);
        let fmax = fabs.iter().cloned().fold(0.0f64, f64::max);
        let floor = 64.0 * epsf * (kj + fmax + 1.0);
        c.resid(&format!("subthreshold/{fname}/shift-over-floor"), shift / floor);
        c.count("subthreshold-coefficient-injections");
        ensure!(shift <= floor, "C13/decision/sub-threshold-coefficient-changes-decision-values",
            {"case": desc, "index": j, "injected": 50.0 * epsf, "largest_change": shift, "floor": floor});
    }
    // --- decision value published by the model == oracle's
    for q in 0..f.len() {
        let floor = 256.0 * epsf * (fabs[q] + 1.0) * (n as f64).sqrt().max(1.0) + fdrop[q];
        let r = (pu.dec_model[q] - f[q]).abs();
        c.resid(&format!("decision/{fname}/resid-over-floor"), r / floor);
        ensure!(r <= floor, "C13/decision/value-mismatch",
            {"case": desc, "row": q, "model": pu.dec_model[q], "oracle": f[q], "floor": floor});
    }
    // --- predictions
    let floor_q = |q: usize| 256.0 * epsf * (fabs[q] + 1.0) * (n as f64).sqrt().max(1.0) + fdrop[q];
    if let Some(pbv) = &pu.pred_bool {
        ensure!(pbv.len() == f.len(), "C13/predict/length", {"case": desc});
        for q in 0..f.len() {
            if f[q].abs() <= floor_q(q) {
                c.count("label-tie-class");
                continue;
            }
            ensure!(pbv[q] == (f[q] >= 0.0), "C13/predict/label-not-sign",
                {"case": desc, "row": q, "decision": f[q], "label": pbv[q]});
        }
    }
    if let Some(pv) = &pu.pred_val {
        ensure!(pv.len() == f.len(), "C13/predict/length", {"case": desc});
        for q in 0..f.len() {
            ensure!((pv[q] - f[q]).abs() <= floor_q(q), "C13/predict/value-not-decision",
                {"case": desc, "row": q, "decision": f[q], "predicted": pv[q]});
        }
    }
    if let Some(pr) = &pu.pred_pr {
        ensure!(pr.len() == f.len(), "C13/predict/length", {"case": desc});
        ensure!(pr.iter().all(|p| (0.0..=1.0).contains(p)), "C13/platt/range", {"case": desc});
        // monotone in the decision value (either direction, consistently)
        let mut order: Vec<usize> = (0..f.len()).collect();
        order.sort_by(|a, b| f[*a].partial_cmp(&f[*b]).unwrap());
        let (mut up, mut down) = (0usize, 0usize);
        let mut wit = Value::Null;
        for w in order.windows(2) {
            let (a, b) = (w[0], w[1]);
            if f[b] - f[a] <= floor_q(a) + floor_q(b) {
                continue;
            }
            // f32 probabilities: allow one ulp of the f32 sigmoid
            if pr[b] > pr[a] + 1e-6 {
                up += 1;
            } else if pr[b] < pr[a] - 1e-6 {
                down += 1;
                wit = json!({"f_a": f[a], "f_b": f[b], "p_a": pr[a], "p_b": pr[b]});
            }
        }
        ensure!(up == 0 || down == 0, "C13/platt/not-monotone",
            {"case": desc, "increasing_steps": up, "decreasing_steps": down, "example": wit});
    }
    // --- nsupport
    let ns = pu.alpha.iter().filter(|a| a.abs() > 100.0 * epsf).count();
    ensure!(ns == pu.nsupport, "C13/nsupport/count", {"case": desc, "reported": pu.nsupport, "recount": ns});

    // the equality constraints are maintained incrementally: their rounding error grows with the
    // number of SMO steps (read from the Display text "Exited after N iterations")
    let iters: f64 = pu.display.split_whitespace().nth(2).and_then(|t| t.parse::<f64>().ok()).unwrap_or(1e7);
    let drift = |mass: f64, bound: f64| epsf * (mass + bound + 1.0) * (64.0 * (n as f64).sqrt() + 4.0 * iters);
    // --- dual feasibility + KKT
    // the solver's own gradient is maintained incrementally too (one rounded update per SMO step),
    // so the stopping rule it evaluates is off by a random-walk term ~ eps_F * S * sqrt(steps)
    let tau_of = |i: usize, scale: f64| pb.eps / scale
        + epsf * (fabs[i] + 1.0) * (1024.0 * (n as f64).max(1.0) + 64.0 * iters.sqrt()) / scale.min(1.0);
    match pb.kind {
        Kind::CSvc { cpos, cneg } => {
            let mut sum = 0.0;
            let mut sabs = 0.0;
            for i in 0..n {
                let y = if pb.yb[i] { 1.0 } else { -1.0 };
                let cb = if pb.yb[i] { cpos } else { cneg };
                let a = y * pu.alpha[i];
                sum += pu.alpha[i];
                sabs += pu.alpha[i].abs();
                ensure!(a >= -16.0 * epsf * cb && a <= cb * (1.0 + 16.0 * epsf), "C13/c-svc/box",
                    {"case": desc, "i": i, "y_alpha": a, "bound": cb});
                let tau = tau_of(i, 1.0);
                let m = y * f[i];
                let delta = 1e3 * epsf * cb;
                let lower_ok = m >= 1.0 - tau;
                let upper_ok = m <= 1.0 + tau;
                c.resid(&format!("kkt/{fname}/violation-over-tau"),
                    if a <= delta { (1.0 - m).max(0.0) / tau } else if a >= cb - delta { (m - 1.0).max(0.0) / tau } else { (m - 1.0).abs() / tau });
                if a <= delta {
                    ensure!(lower_ok, "C13/c-svc/kkt-zero-inside-margin", {"case": desc, "i": i, "y_f": m, "alpha": a, "tau": tau});
                } else if a >= cb - delta {
                    ensure!(upper_ok, "C13/c-svc/kkt-bounded-outside-margin", {"case": desc, "i": i, "y_f": m, "alpha": a, "tau": tau});
                } else {
                    ensure!(lower_ok && upper_ok, "C13/c-svc/kkt-free-off-margin", {"case": desc, "i": i, "y_f": m, "alpha": a, "tau": tau});
                }
            }
            ensure!(sum.abs() <= drift(sabs, cpos.max(cneg)), "C13/c-svc/equality", {"case": desc, "sum_alpha": sum});
        }
        Kind::NuSvc { nu } => {
            // linfa publishes alpha/r and rho/r, r being the margin of the nu-SVC solution. A
            // solution with r <= 0 (numerically) is the degenerate w = 0 optimum: nothing to check.
            let gscale = 1.0 + kmax * nu * n as f64 / 2.0;
            if let Some(rs) = pu.r_serialised {
                if !(rs > 1e-7 * gscale) {
                    return inconclusive("nu-svc: degenerate solution (margin r <= 0 up to rounding)");
                }
            }
            let (mut sp, mut sn) = (0.0, 0.0);
            for i in 0..n {
                let y = if pb.yb[i] { 1.0 } else { -1.0 };
                let a = y * pu.alpha[i];
                ensure!(a >= -1e-9 * pu.alpha[i].abs().max(1.0), "C13/nu-svc/sign", {"case": desc, "i": i, "y_alpha": a, "r_serialised": pu.r_serialised});
                if pb.yb[i] { sp += a } else { sn += a }
            }
            if !(sp > 0.0) {
                return inconclusive("nu-svc: no positive-class mass, scale not recoverable");
            }
            let r = nu * n as f64 / (2.0 * sp);
            if !(r.is_finite() && r > 1e-7 * gscale) {
                return inconclusive(format!("nu-svc: recovered scale r={r} degenerate"));
            }
            if let Some(rs) = pu.r_serialised {
                c.resid(&format!("nu-svc/{fname}/r-recovered-vs-serialised"), (rs - r).abs() / r.abs());
            }
            ensure!((sp - sn).abs() <= drift(sp + sn, 1.0 / r), "C13/nu-svc/equality",
                {"case": desc, "sum_pos": sp, "sum_neg": sn});
            for i in 0..n {
                let y = if pb.yb[i] { 1.0 } else { -1.0 };
                let a = y * pu.alpha[i] * r; // back to solver units, bound 1
                ensure!(a <= 1.0 + 1e3 * epsf, "C13/nu-svc/box", {"case": desc, "i": i, "alpha_solver_units": a});
                let tau = tau_of(i, r);
                let m = y * f[i];
                let delta = 1e3 * epsf;
                c.resid(&format!("kkt/{fname}/violation-over-tau"),
                    if a <= delta { (1.0 - m).max(0.0) / tau } else if a >= 1.0 - delta { (m - 1.0).max(0.0) / tau } else { (m - 1.0).abs() / tau });
                if a <= delta {
                    ensure!(m >= 1.0 - tau, "C13/nu-svc/kkt-zero-inside-margin", {"case": desc, "i": i, "y_f": m, "r": r, "tau": tau});
                } else if a >= 1.0 - delta {
                    ensure!(m <= 1.0 + tau, "C13/nu-svc/kkt-bounded-outside-margin", {"case": desc, "i": i, "y_f": m, "r": r, "tau": tau});
                } else {
                    ensure!((m - 1.0).abs() <= tau, "C13/nu-svc/kkt-free-off-margin", {"case": desc, "i": i, "y_f": m, "r": r, "tau": tau});
                }
            }
        }
        Kind::OneClass { nu } => {
            let mut sum = 0.0;
            let _ = nu;
            for i in 0..n {
                let a = pu.alpha[i];
                sum += a;
                ensure!(a >= -16.0 * epsf && a <= 1.0 + 16.0 * epsf, "C13/one-class/box", {"case": desc, "i": i, "alpha": a});
                let tau = tau_of(i, 1.0);
                let delta = 1e3 * epsf;
                c.resid(&format!("kkt/{fname}/violation-over-tau"),
                    if a <= delta { (-f[i]).max(0.0) / tau } else if a >= 1.0 - delta { f[i].max(0.0) / tau } else { f[i].abs() / tau });
                if a <= delta {
                    ensure!(f[i] >= -tau, "C13/one-class/kkt-zero-inside", {"case": desc, "i": i, "f": f[i], "tau": tau});
                } else if a >= 1.0 - delta {
                    ensure!(f[i] <= tau, "C13/one-class/kkt-bounded-outside", {"case": desc, "i": i, "f": f[i], "tau": tau});
                } else {
                    ensure!(f[i].abs() <= tau, "C13/one-class/kkt-free-off-boundary", {"case": desc, "i": i, "f": f[i], "tau": tau});
                }
            }
            let want = nu * n as f64;
            ensure!((sum - want).abs() <= drift(want, 1.0), "C13/one-class/equality",
                {"case": desc, "sum_alpha": sum, "nu_n": want});
        }
        Kind::EpsSvr { c: cc, tube } => {
            let mut sum = 0.0;
            let mut sabs = 0.0;
            for i in 0..n {
                let a = pu.alpha[i];
                sum += a;
                sabs += a.abs();
                ensure!(a.abs() <= cc * (1.0 + 16.0 * epsf), "C13/eps-svr/box", {"case": desc, "i": i, "alpha": a, "C": cc});
                let tau = tau_of(i, 1.0) + 64.0 * epsf * pb.yr[i].abs();
                let res = pb.yr[i] - f[i];
                let delta = 1e3 * epsf * cc;
                let v = if a.abs() <= delta {
                    (res.abs() - tube).max(0.0)
                } else if a >= cc - delta {
                    (tube - res).max(0.0)
                } else if a <= -cc + delta {
                    (res + tube).max(0.0)
                } else if a > 0.0 {
                    (res - tube).abs()
                } else {
                    (res + tube).abs()
                };
                c.resid(&format!("kkt/{fname}/violation-over-tau"), v / tau);
                let sig = if a.abs() <= delta { "C13/eps-svr/kkt-zero-outside-tube" }
                    else if a.abs() >= cc - delta { "C13/eps-svr/kkt-bounded-inside-tube" }
                    else { "C13/eps-svr/kkt-free-off-tube" };
                ensure!(v <= tau, sig, {"case": desc, "i": i, "alpha": a, "y_minus_f": res, "tube": tube, "tau": tau});
            }
            ensure!(sum.abs() <= drift(sabs, cc), "C13/eps-svr/equality", {"case": desc, "sum_alpha": sum});
        }
        Kind::NuSvr { nu, c: cc } => {
            let mut sum = 0.0;
            let mut sabs = 0.0;
            for i in 0..n {
                let a = pu.alpha[i];
                sum += a;
                sabs += a.abs();
                ensure!(a.abs() <= cc * (1.0 + 16.0 * epsf), "C13/nu-svr/box", {"case": desc, "i": i, "alpha": a, "C": cc});
            }
            ensure!(sum.abs() <= drift(sabs, cc), "C13/nu-svr/equality", {"case": desc, "sum_alpha": sum});
            let budget = cc * nu * n as f64;
            // common tube: free vectors share one width, bounded outside, zero inside
            let delta = 1e3 * epsf * cc;
            let mut free: Vec<f64> = vec![];
            let mut bounded_min = f64::INFINITY;
            let mut zero_max: f64 = 0.0;
            let mut tau_max: f64 = 0.0;
            for i in 0..n {
                let a = pu.alpha[i];
                let res = pb.yr[i] - f[i];
                let tau = tau_of(i, 1.0) + 64.0 * epsf * pb.yr[i].abs();
                tau_max = tau_max.max(tau);
                if a.abs() <= delta {
                    zero_max = zero_max.max(res.abs());
                } else if a.abs() >= cc - delta {
                    bounded_min = bounded_min.min(res * a.signum());
                } else {
                    free.push(res * a.signum());
                }
            }
            let fmin = free.iter().cloned().fold(f64::INFINITY, f64::min);
            let fmax = free.iter().cloned().fold(f64::NEG_INFINITY, f64::max);
            let tube_ok = free.is_empty() || fmax - fmin <= 2.0 * tau_max;
            let tube_lo = if free.is_empty() { zero_max } else { fmin };
            let tube_hi = if free.is_empty() { bounded_min } else { fmax };
            let bounded_ok = bounded_min >= tube_hi.min(tube_lo) - 2.0 * tau_max;
            let zero_ok = zero_max <= tube_hi.max(tube_lo) + 2.0 * tau_max;
            let sum_ok = sabs <= budget + drift(sabs, cc);
            if !sum_ok {
                // discriminating predicate for the documented defect: the solution is the
                // eps-SVR solution with eps = 0 (every residual condition of that problem holds)
                let mut eps0_ok = true;
                for i in 0..n {
                    let a = pu.alpha[i];
                    let res = pb.yr[i] - f[i];
                    let tau = tau_of(i, 1.0) + 64.0 * epsf * pb.yr[i].abs();
                    let v = if a.abs() <= delta { res.abs() }
                        else if a >= cc - delta { (-res).max(0.0) }
                        else if a <= -cc + delta { res.max(0.0) }
                        else { res.abs() };
                    if v > tau { eps0_ok = false; }
                }
                let sig = if eps0_ok { "C13/nu-svr/sum-exceeds-budget-solves-eps0-svr" } else { "C13/nu-svr/sum-exceeds-budget" };
                bail!(sig, {"case": desc, "sum_abs_alpha": sabs, "C_nu_n": budget});
            }
            ensure!(tube_ok, "C13/nu-svr/free-vectors-different-tubes", {"case": desc, "min": fmin, "max": fmax, "tau": tau_max});
            ensure!(bounded_ok, "C13/nu-svr/bounded-inside-tube", {"case": desc, "bounded_min": bounded_min, "tube": tube_lo});
            ensure!(zero_ok, "C13/nu-svr/zero-outside-tube", {"case": desc, "zero_max": zero_max, "tube": tube_hi});
        }
    }
    let _ = kmax;
    let nfree = pu.alpha.iter().filter(|a| a.abs() > 100.0 * epsf).count();
    held(
        nfree >= 2 && nfree < n,
        format!("{:?}/{:?}/n{}/d{}/eps{}/sh{}/{}/{}", pb.kind, pb.kern, n, pb.x.ncols(), pb.eps, pb.shrinking, fname, c.idx),
    )
}

fn round_f32(x: &mut Array2<f64>) {
    x.mapv_inplace(|v| (v as f32) as f64);
}

fn gen_kernel(rng: &mut Rng, d: usize) -> Kern {
    match rng.gen_range(0..3) {
        0 => Kern::Linear,
        1 => Kern::Gauss(gen::log_uniform(rng, 0.3, 30.0) * d as f64),
        // degree 1 with a constant is an affine kernel: "any parameters" includes it, and it sits
        // right next to the linear special case
        _ => Kern::Poly(*gen::pick(rng, &[0.0, 1.0, 2.0]), *gen::pick(rng, &[2.0, 3.0, 2.0, 3.0, 1.0])),
    }
}

fn gen_classification(c: &mut Case, n: usize, f32mode: bool) -> (Array2<f64>, Vec<bool>, Array2<f64>, f64) {
    let rng = &mut c.rng;
    let d = rng.gen_range(1..=4);
    let sep = *gen::pick(rng, &[0.3, 1.0, 2.5, 6.0]);
    let frac_pos = *gen::pick(rng, &[0.5, 0.5, 0.3, 0.15]);
    let npos = ((n as f64 * frac_pos).round() as usize).clamp(2, n - 2);
    let mut x = Array2::zeros((n, d));
    let mut y = vec![false; n];
    let dir: Vec<f64> = (0..d).map(|_| gen::normal(rng)).collect();
    let norm = dir.iter().map(|v| v * v).sum::<f64>().sqrt().max(1e-9);
    let order = gen::permutation(rng, n);
    for (pos, &i) in order.iter().enumerate() {
        let positive = pos < npos;
        y[i] = positive;
        for j in 0..d {
            let centre = if positive { sep / 2.0 } else { -sep / 2.0 } * dir[j] / norm;
            x[[i, j]] = centre + gen::normal(rng);
        }
    }
    // duplicates (same label, and a few with the opposite label)
    let ndup = rng.gen_range(0..=n / 8);
    for _ in 0..ndup {
        let a = rng.gen_range(0..n);
        let b = rng.gen_range(0..n);
        let row = x.row(a).to_owned();
        x.row_mut(b).assign(&row);
        if rng.gen_bool(0.7) {
            y[b] = y[a];
        }
    }
    if y.iter().filter(|v| **v).count() < 2 || y.iter().filter(|v| !**v).count() < 2 {
        y[0] = true;
        y[1] = true;
        y[2] = false;
        y[3] = false;
    }
    let mut fresh = gen::normal_matrix(rng, 12, d) * (1.0 + sep);
    if f32mode {
        round_f32(&mut x);
        round_f32(&mut fresh);
    }
    (x, y, fresh, sep)
}

fn gen_regression(c: &mut Case, n: usize, f32mode: bool) -> (Array2<f64>, Vec<f64>, Array2<f64>) {
    let rng = &mut c.rng;
    let d = rng.gen_range(1..=3);
    let mut x = gen::uniform_matrix(rng, n, d, -2.0, 2.0);
    let w: Vec<f64> = (0..d).map(|_| gen::normal(rng)).collect();
    let nonlinear = rng.gen_bool(0.5);
    let noise = *gen::pick(rng, &[0.01, 0.1, 0.5]);
    let ndup = rng.gen_range(0..=n / 10);
    for _ in 0..ndup {
        let a = rng.gen_range(0..n);
        let b = rng.gen_range(0..n);
        let row = x.row(a).to_owned();
        x.row_mut(b).assign(&row);
    }
    let mut fresh = gen::uniform_matrix(rng, 10, d, -3.0, 3.0);
    if f32mode {
        round_f32(&mut x);
        round_f32(&mut fresh);
    }
    let y: Vec<f64> = (0..n)
        .map(|i| {
            let lin: f64 = (0..d).map(|j| w[j] * x[[i, j]]).sum();
            let v = if nonlinear { (1.5 * lin).sin() * 2.0 } else { lin } + noise * gen::normal(rng);
            if f32mode { (v as f32) as f64 } else { v }
        })
        .collect();
    (x, y, fresh)
}

fn one_case(c: &mut Case, which: usize, shrinking: bool, f32mode: bool, nmax: usize) -> Outcome {
    let n = {
        let r = c.rng.gen_range(0..10);
        if r < 5 { c.rng.gen_range(10..40) } else if r < 9 { c.rng.gen_range(40..nmax.min(150).max(41)) } else { c.rng.gen_range(nmax / 2..=nmax) }
    };
    let eps: f64 = if f32mode { *gen::pick(&mut c.rng, &[1e-2, 1e-3]) } else { *gen::pick(&mut c.rng, &[1e-3, 1e-5, 1e-7]) };
    let (x, yb, yr, fresh, sep) = if which <= 2 {
        let (x, y, fr, sep) = gen_classification(c, n, f32mode);
        (x, y, vec![], fr, sep)
    } else {
        let (x, y, fr) = gen_regression(c, n, f32mode);
        (x, vec![], y, fr, 0.0)
    };
    let d = x.ncols();
    let kern = gen_kernel(&mut c.rng, d);
    let eps = if matches!(kern, Kern::Poly(..)) && !f32mode { eps.max(1e-5) } else { eps };
    let cgrid = if f32mode { &[0.1, 1.0, 10.0][..] } else { &[0.01, 0.1, 1.0, 10.0, 100.0, 1000.0][..] };
    let kind = match which {
        0 => Kind::CSvc { cpos: *gen::pick(&mut c.rng, cgrid), cneg: *gen::pick(&mut c.rng, cgrid) },
        1 => {
            let npos = yb.iter().filter(|v| **v).count();
            let numax = 2.0 * npos.min(n - npos) as f64 / n as f64;
            // overlapping classes need nu above the unavoidable error fraction, else the optimum is w = 0
            let nu = numax * if sep < 2.0 { *gen::pick(&mut c.rng, &[0.6f64, 0.75, 0.9, 0.97]) } else { *gen::pick(&mut c.rng, &[0.1f64, 0.2, 0.35, 0.5, 0.7, 0.9]) };
            Kind::NuSvc { nu }
        }
        2 => Kind::OneClass { nu: *gen::pick(&mut c.rng, &[0.05, 0.1, 0.3, 0.5, 0.9, 1.0]) },
        3 => Kind::EpsSvr { c: *gen::pick(&mut c.rng, cgrid), tube: *gen::pick(&mut c.rng, &[1e-3, 0.01, 0.1, 0.5]) },
        _ => Kind::NuSvr { nu: *gen::pick(&mut c.rng, &[0.1, 0.3, 0.5, 0.9, 1.0]), c: *gen::pick(&mut c.rng, cgrid) },
    };
    // polynomial kernels with large C on f32 are numerically hopeless for any solver: keep C moderate
    let kind = match (kind, kern) {
        (Kind::CSvc { cpos, cneg }, Kern::Poly(..)) => Kind::CSvc { cpos: cpos.min(10.0), cneg: cneg.min(10.0) },
        (Kind::EpsSvr { c, tube }, Kern::Poly(..)) => Kind::EpsSvr { c: c.min(10.0), tube },
        (Kind::NuSvr { nu, c }, Kern::Poly(..)) => Kind::NuSvr { nu, c: c.min(10.0) },
        (k, _) => k,
    };
    // SMO converges slowly for large C; the 10^7-step cap is not configurable, so the stopping
    // tolerance is kept proportional to C
    let cmax = match kind {
        Kind::CSvc { cpos, cneg } => cpos.max(cneg),
        Kind::EpsSvr { c, .. } | Kind::NuSvr { c, .. } => c,
        _ => 1.0,
    };
    let eps = eps.max(1e-7 * cmax);
    let want_pr = which <= 1 && c.rng.gen_bool(0.3);
    let layout = [0u8, 0, 1, 2][c.rng.gen_range(0..4)];
    c.note("records_layout", json!(["standard", "column-major", "rows-reversed"][layout as usize]));
    let history = c.rng.gen_bool(0.5);
    c.note("setter_history", json!(history));
    let pb = Problem { x, yb, yr, fresh, kern, kind, eps, shrinking, layout, history };
    c.note("kind", json!(format!("{:?}", pb.kind)));
    c.note("kernel", json!(format!("{:?}", pb.kern)));
    c.note("n", json!(n));
    c.note("d", json!(d));
    c.note("eps", json!(eps));
    c.note("shrinking", json!(shrinking));
    c.note("float", json!(if f32mode { "f32" } else { "f64" }));
    c.note("platt", json!(want_pr));
    let fitted = if f32mode { guarded(|| run_fit::<f32>(&pb, want_pr)) } else { guarded(|| run_fit::<f64>(&pb, want_pr)) };
    let pu = match fitted {
        Err(p) => {
            let sig = if shrinking { "C13/fit/panic-with-shrinking" } else { "C13/fit/panic" };
            bail!(sig, {"kind": format!("{:?}", pb.kind), "kernel": format!("{:?}", pb.kern), "n": n, "shrinking": shrinking, "panic": p});
        }
        Ok(Err(e)) => return inconclusive(e),
        Ok(Ok(p)) => p,
    };
    c.note("display", json!(pu.display));
    if std::env::var("VERIF_VERBOSE").is_ok() && !pu.display.starts_with("Exited") {
        println!("MAXITER family={} idx={} {:?} {:?} n={} eps={}", c.family, c.idx, pb.kind, pb.kern, n, eps);
    }
    let (epsf, fname) = if f32mode { (f32::EPSILON as f64, "f32") } else { (f64::EPSILON, "f64") };
    judge(c, &pb, &pu, epsf, fname)
}

pub fn run(ctx: &Ctx) {
    ctx.set_rule(
        "random binary / unlabelled / regression datasets (separable..overlapping, imbalanced, duplicated rows, \
         1-4 features) x kernel (linear, Gaussian, polynomial) x problem kind x C / nu grid x solver eps x \
         shrinking on/off x f32/f64. Non-trivial = the fit ended with 'threshold' and the solution has at least two \
         and fewer than n non-zero coefficients; distinct = distinct (kind, kernel, n, d, eps, shrinking, float, case) tuples.",
    );
    ctx.assume("the KKT tolerance is the configured solver eps (divided by the recovered scale r for nu-SVC) plus a noise floor 1024*eps_F*n*(sum|alpha K|+|rho|+1)");
    ctx.assume("nu-SVC is only generated with feasible nu <= 2*min(n+,n-)/n; fits whose margin r is <= 0 up to rounding (nu below the minimal training error: w = 0 optimum, linfa divides by r) are degenerate and counted as inconclusive");
    let per = ctx.tier.pick(60, 300);
    let nmax = ctx.tier.pick(220, 700);
    const NAMES: [&str; 5] = ["c-svc", "nu-svc", "one-class", "eps-svr", "nu-svr"];
    // the families are independent: run them side by side so one slow fit does not serialise the run
    rayon::scope(|sc| {
        macro_rules! fam {
            ($name:expr, $which:expr, $sh:expr, $f32:expr, $count:expr) => {
                sc.spawn(move |_| ctx.family($name, $count, |c| one_case(c, $which, $sh, $f32, if $which == 4 { nmax.min(90) } else { nmax })));
            };
        }
        fam!("c-svc/f64", 0, false, false, per);
        fam!("nu-svc/f64", 1, false, false, per);
        fam!("one-class/f64", 2, false, false, per);
        fam!("eps-svr/f64", 3, false, false, per);
        fam!("nu-svr/f64", 4, false, false, per / 2);
        fam!("c-svc/f64/shrinking", 0, true, false, per);
        fam!("nu-svc/f64/shrinking", 1, true, false, per);
        fam!("one-class/f64/shrinking", 2, true, false, per);
        fam!("eps-svr/f64/shrinking", 3, true, false, per);
        fam!("nu-svr/f64/shrinking", 4, true, false, per / 2);
        fam!("c-svc/f32", 0, false, true, per / 2);
        fam!("nu-svc/f32", 1, false, true, per / 2);
        fam!("one-class/f32", 2, false, true, per / 2);
        fam!("eps-svr/f32", 3, false, true, per / 2);
        fam!("nu-svr/f32", 4, false, true, per / 4);
    });
    let _ = NAMES;
}
