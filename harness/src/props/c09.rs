//! C09 — k-means assigns to the nearest centroid and each Lloyd step lowers the cost.
//!
//! Everything the oracle knows is derived from the property text:
//!   * a centroid set C, a metric and an observation x define the reduced distances
//!     rd(x, C_j) (squared Euclidean for L2, the distance itself for L1 / L-inf / L-p); a label is
//!     admissible iff its reduced distance is minimal (tie class: within the rounding floor);
//!   * one iteration maps (C, assignment) to  C'_j = (sum of assigned points + C_j) / (count_j + 1);
//!   * cost(C) = sum_i min_j rd(x_i, C_j).
//! All oracle arithmetic is f64 on the exact values of the element type linfa computed in.
//!
//! The iterates of a run are observed through the public API only: `KMeansInit::Precomputed(c0)`,
//! `n_runs(1)`, the smallest positive tolerance and `max_n_iterations(m)` for m = 1..M.
use crate::fw::*;
use crate::gen;
use linfa::traits::{Fit, PredictInplace, Transformer};
use linfa::DatasetBase;
use linfa_clustering::{KMeans, KMeansInit};
use linfa_nn::distance::{Distance, L1Dist, L2Dist, LInfDist, LpDist};
use ndarray::{s, Array1, Array2, ArrayBase, ArrayView2, Data, Ix2};
use rand::Rng as _;
use rand::SeedableRng;
use rand_xoshiro::Xoshiro256Plus;
use serde_json::{json, Value};

// ------------------------------------------------------------------------------------------------
// element types and metrics
// ------------------------------------------------------------------------------------------------

trait Fl: linfa::Float + serde::Serialize + serde::de::DeserializeOwned {
    const NAME: &'static str;
    const EPS: f64;
    /// absolute slack that only absorbs underflow (a few thousand times the smallest normal)
    const TINY: f64;
    fn f(v: f64) -> Self;
    fn d(self) -> f64;
    fn min_pos() -> Self;
}
impl Fl for f64 {
    const NAME: &'static str = "f64";
    const EPS: f64 = f64::EPSILON;
    const TINY: f64 = f64::MIN_POSITIVE * 4096.0;
    fn f(v: f64) -> f64 {
        v
    }
    fn d(self) -> f64 {
        self
    }
    fn min_pos() -> f64 {
        f64::MIN_POSITIVE
    }
}
impl Fl for f32 {
    const NAME: &'static str = "f32";
    const EPS: f64 = f32::EPSILON as f64;
    const TINY: f64 = f32::MIN_POSITIVE as f64 * 4096.0;
    fn f(v: f64) -> f32 {
        v as f32
    }
    fn d(self) -> f64 {
        self as f64
    }
    fn min_pos() -> f32 {
        f32::MIN_POSITIVE
    }
}

trait Dk<F: Fl>:
    Distance<F> + serde::Serialize + serde::de::DeserializeOwned + std::fmt::Debug
{
}
impl<F: Fl, T> Dk<F> for T where
    T: Distance<F> + serde::Serialize + serde::de::DeserializeOwned + std::fmt::Debug
{
}

#[derive(Clone, Copy, Debug, PartialEq)]
enum Metric {
    L1,
    L2,
    LInf,
    Lp(f64),
}

impl Metric {
    fn name(&self) -> String {
        match self {
            Metric::L1 => "L1".into(),
            Metric::L2 => "L2".into(),
            Metric::LInf => "Linf".into(),
            Metric::Lp(q) => format!("Lp{q}"),
        }
    }
    /// the distance of the metric between two equally long coordinate lists
    fn dist(&self, a: &[f64], b: &[f64]) -> f64 {
        let it = a.iter().zip(b.iter()).map(|(x, y)| (x - y).abs());
        match self {
            Metric::L1 => it.sum(),
            Metric::L2 => it.map(|d| d * d).sum::<f64>().sqrt(),
            Metric::LInf => it.fold(0.0, f64::max),
            Metric::Lp(q) => it.map(|d| d.powf(*q)).sum::<f64>().powf(1.0 / q),
        }
    }
    /// the reduced distance: squared for L2, the distance otherwise
    fn rdist(&self, a: &[f64], b: &[f64]) -> f64 {
        match self {
            Metric::L2 => a
                .iter()
                .zip(b.iter())
                .map(|(x, y)| (x - y) * (x - y))
                .sum::<f64>(),
            _ => self.dist(a, b),
        }
    }
    fn to_dist(&self, rd: f64) -> f64 {
        match self {
            Metric::L2 => rd.max(0.0).sqrt(),
            _ => rd,
        }
    }
    fn to_rdist(&self, d: f64) -> f64 {
        match self {
            Metric::L2 => d * d,
            _ => d,
        }
    }
    /// relative rounding floor of one reduced distance of `p` non-negative summands computed in
    /// an element type with epsilon `eps` (sums of non-negative terms: no cancellation, so the
    /// error is relative to the value). Rigorous first-order bound is (p+2)·eps for L1/L2/Linf;
    /// powf adds a few ulps per term for L-p.
    fn rel_floor(&self, p: usize, eps: f64) -> f64 {
        match self {
            Metric::Lp(_) => 256.0 * (p as f64 + 8.0) * eps,
            _ => 64.0 * (p as f64 + 4.0) * eps,
        }
    }
    /// absolute slack on one reduced distance that only absorbs underflow in the element type:
    /// `tiny` is a few thousand times the smallest normal number; for L-p the underflow happens in
    /// |d|^q before the root is taken, so the slack is the q-th root of it.
    fn tiny_d(&self, tiny: f64) -> f64 {
        match self {
            Metric::Lp(q) => 4.0 * tiny.powf(1.0 / q),
            _ => tiny,
        }
    }
    /// a step of the whole centroid matrix shorter than this may be computed as zero by the
    /// element type (the squares / powers of the differences underflow), i.e. "distance <
    /// tolerance" may hold for the smallest positive tolerance
    fn early_stop_floor(&self, cells: usize, min_pos: f64) -> f64 {
        4.0 * cells as f64
            * match self {
                Metric::L2 => min_pos.sqrt(),
                Metric::Lp(q) => min_pos.powf(1.0 / q),
                _ => min_pos,
            }
    }
}

macro_rules! dispatch {
    ($f32:expr, $metric:expr, $func:ident ( $($args:expr),* )) => {
        if $f32 {
            match $metric {
                Metric::L1 => $func::<f32, _>($($args,)* L1Dist),
                Metric::L2 => $func::<f32, _>($($args,)* L2Dist),
                Metric::LInf => $func::<f32, _>($($args,)* LInfDist),
                Metric::Lp(q) => $func::<f32, _>($($args,)* LpDist(q as f32)),
            }
        } else {
            match $metric {
                Metric::L1 => $func::<f64, _>($($args,)* L1Dist),
                Metric::L2 => $func::<f64, _>($($args,)* L2Dist),
                Metric::LInf => $func::<f64, _>($($args,)* LInfDist),
                Metric::Lp(q) => $func::<f64, _>($($args,)* LpDist(q)),
            }
        }
    };
}

macro_rules! tri_opt {
    ($e:expr) => {
        if let Some(o) = $e {
            return Some(o);
        }
    };
}

/// `tri!(check(..))`: a check returns `Some(violation outcome)` or `None`
macro_rules! tri {
    ($e:expr) => {
        if let Some(o) = $e {
            return o;
        }
    };
}

// ------------------------------------------------------------------------------------------------
// f64 row-major matrices for the oracle
// ------------------------------------------------------------------------------------------------

#[derive(Clone, Debug, PartialEq)]
struct M64 {
    n: usize,
    p: usize,
    v: Vec<f64>,
}
impl M64 {
    fn row(&self, i: usize) -> &[f64] {
        &self.v[i * self.p..(i + 1) * self.p]
    }
    fn of<F: Fl, S: Data<Elem = F>>(a: &ArrayBase<S, Ix2>) -> M64 {
        let (n, p) = a.dim();
        let mut v = Vec::with_capacity(n * p);
        for r in a.rows() {
            for x in r.iter() {
                v.push(x.d());
            }
        }
        M64 { n, p, v }
    }
    fn all_finite(&self) -> bool {
        self.v.iter().all(|x| x.is_finite())
    }
    fn maxabs(&self) -> f64 {
        self.v.iter().fold(0.0, |a, x| a.max(x.abs()))
    }
    fn json(&self) -> Value {
        if self.v.len() <= 64 {
            json!((0..self.n).map(|i| self.row(i).to_vec()).collect::<Vec<_>>())
        } else {
            json!(format!("{}x{} (elided)", self.n, self.p))
        }
    }
}

fn small_hash(m: &M64) -> u64 {
    let mut h = 0xcbf29ce484222325u64;
    for x in &m.v {
        h ^= x.to_bits();
        h = h.wrapping_mul(0x100000001b3);
    }
    h & 0xffff_ffff
}

/// nearest-centroid information of every observation
struct Near {
    /// first minimal index
    lab: Vec<usize>,
    /// minimal reduced distance
    d1: Vec<f64>,
    /// second smallest reduced distance (inf when k = 1)
    d2: Vec<f64>,
    /// observations whose minimum is not unique within the rounding floor, with the admissible set
    amb: Vec<(usize, Vec<usize>)>,
}

fn admissible_threshold(d1: f64, rel: f64, tiny: f64) -> f64 {
    d1 * (1.0 + 2.0 * rel) + tiny
}

fn nearest(mt: Metric, x: &M64, c: &M64, rel: f64, tiny: f64) -> Near {
    let mut out = Near {
        lab: Vec::with_capacity(x.n),
        d1: Vec::with_capacity(x.n),
        d2: Vec::with_capacity(x.n),
        amb: vec![],
    };
    let mut ds = vec![0.0; c.n];
    for i in 0..x.n {
        let mut best = 0;
        for j in 0..c.n {
            ds[j] = mt.rdist(x.row(i), c.row(j));
            if ds[j] < ds[best] {
                best = j;
            }
        }
        let d1 = ds[best];
        let mut d2 = f64::INFINITY;
        for j in 0..c.n {
            if j != best && ds[j] < d2 {
                d2 = ds[j];
            }
        }
        let thr = admissible_threshold(d1, rel, tiny);
        if d2 <= thr {
            let cands: Vec<usize> = (0..c.n).filter(|j| ds[*j] <= thr).collect();
            out.amb.push((i, cands));
        }
        out.lab.push(best);
        out.d1.push(d1);
        out.d2.push(d2);
    }
    out
}

/// one iteration as the property words it: every centroid becomes the mean of its assigned
/// points together with its previous position. Also returns the counts and, per cell, the mean
/// absolute value of the summands (scale of the rounding floor).
fn oracle_step(x: &M64, c: &M64, assign: &[usize]) -> (M64, Vec<usize>, M64) {
    let (k, p) = (c.n, c.p);
    let mut sum = c.v.clone();
    let mut abs: Vec<f64> = c.v.iter().map(|v| v.abs()).collect();
    let mut cnt = vec![0usize; k];
    for i in 0..x.n {
        let j = assign[i];
        cnt[j] += 1;
        let r = x.row(i);
        for t in 0..p {
            sum[j * p + t] += r[t];
            abs[j * p + t] += r[t].abs();
        }
    }
    for j in 0..k {
        let d = (cnt[j] + 1) as f64;
        for t in 0..p {
            sum[j * p + t] /= d;
            abs[j * p + t] /= d;
        }
    }
    (M64 { n: k, p, v: sum }, cnt, M64 { n: k, p, v: abs })
}

/// largest |got - want| / bound over the cells, where bound = 64·(count+2)·eps·(mean |summand|)
/// + tiny. A sequential sum of count+1 terms followed by one division is within
/// (count+1)·eps·(mean |summand|) to first order, so 1.0 is a 64-fold relaxation of the rigorous bound.
fn update_residual(got: &M64, want: &M64, cnt: &[usize], abs: &M64, eps: f64, tiny: f64) -> f64 {
    let mut worst: f64 = 0.0;
    for j in 0..want.n {
        for t in 0..want.p {
            let bound = 64.0 * (cnt[j] as f64 + 2.0) * eps * abs.v[j * want.p + t] + tiny;
            let r = (got.v[j * want.p + t] - want.v[j * want.p + t]).abs() / bound;
            if r.is_nan() {
                return f64::NAN;
            }
            worst = worst.max(r);
        }
    }
    worst
}

fn cost(near: &Near) -> f64 {
    near.d1.iter().sum()
}

fn histogram(lab: &[usize], k: usize) -> Vec<usize> {
    let mut h = vec![0usize; k];
    for &l in lab {
        if l < k {
            h[l] += 1;
        }
    }
    h
}

// ------------------------------------------------------------------------------------------------
// driving linfa
// ------------------------------------------------------------------------------------------------

#[derive(Clone, Copy, Debug, PartialEq)]
enum InitKind {
    Random,
    PlusPlus,
    Para,
    Precomputed,
}
impl InitKind {
    fn name(&self) -> &'static str {
        match self {
            InitKind::Random => "random",
            InitKind::PlusPlus => "k-means++",
            InitKind::Para => "k-means||",
            InitKind::Precomputed => "precomputed",
        }
    }
}

struct Cfg<F: Fl> {
    k: usize,
    init: KMeansInit<F>,
    n_runs: usize,
    tol: F,
    max_iter: u64,
    seed: u64,
    /// run inside a private 1-thread rayon pool (k-means|| is only reproducible there)
    single_thread: bool,
}

struct Fitted<F: Fl, D: Dk<F>> {
    model: KMeans<F, D>,
    c: M64,
    counts: Vec<f64>,
    inertia: f64,
}

enum FitRes<F: Fl, D: Dk<F>> {
    Ok(Fitted<F, D>),
    Err(String),
    Panic(String),
}

fn fit<F: Fl, D: Dk<F>>(x: ArrayView2<F>, dist: &D, cfg: &Cfg<F>) -> FitRes<F, D> {
    let run = || {
        let ds = DatasetBase::from(x);
        KMeans::params_with(cfg.k, Xoshiro256Plus::seed_from_u64(cfg.seed), dist.clone())
            .n_runs(cfg.n_runs)
            .tolerance(cfg.tol)
            .max_n_iterations(cfg.max_iter)
            .init_method(cfg.init.clone())
            .fit(&ds)
    };
    let r = if cfg.single_thread {
        guarded(|| {
            rayon::ThreadPoolBuilder::new()
                .num_threads(1)
                .build()
                .expect("1-thread pool")
                .install(run)
        })
    } else {
        guarded(run)
    };
    match r {
        Err(p) => FitRes::Panic(p),
        Ok(Err(e)) => FitRes::Err(format!("{e}")),
        Ok(Ok(model)) => {
            let c = M64::of(model.centroids());
            let counts = model.cluster_count().iter().map(|v| v.d()).collect();
            let inertia = model.inertia().d();
            FitRes::Ok(Fitted {
                model,
                c,
                counts,
                inertia,
            })
        }
    }
}

macro_rules! fit_or_return {
    ($x:expr, $dist:expr, $cfg:expr, $what:expr) => {
        match fit($x, $dist, $cfg) {
            FitRes::Ok(f) => f,
            // every configuration generated here is in the domain (k <= n, finite data, valid
            // hyper-parameters): the only refusal that is not a verdict on the configuration is the
            // inertia failure on distances that overflow
            FitRes::Err(e) if e.contains("No inertia improvement") => return inconclusive(format!("fit returned Err: {e}")),
            FitRes::Err(e) => {
                return violated("C09/fit/error-on-valid-configuration", json!({"error": e, "during": $what}))
            }
            FitRes::Panic(p) => {
                return violated(
                    "C09/fit/panic",
                    json!({"panic": p, "during": $what}),
                )
            }
        }
    };
}

/// A `KMeans` value with arbitrary centroids, obtained through the public serde interface
/// (bincode is not self describing, so a struct with the same field list encodes identically).
/// Only used as a *hint* for the assignment linfa makes under a centroid set for which no fitted
/// model exists (the initial centroids); the result is verified to carry exactly these centroids.
#[derive(serde::Serialize)]
struct Shadow<'a, F: Fl, D> {
    centroids: &'a Array2<F>,
    cluster_count: Array1<F>,
    inertia: F,
    dist_fn: &'a D,
}

fn model_with<F: Fl, D: Dk<F>>(c: &Array2<F>, dist: &D) -> Option<KMeans<F, D>> {
    let bytes = bincode::serialize(&Shadow {
        centroids: c,
        cluster_count: Array1::zeros(c.nrows()),
        inertia: F::f(0.0),
        dist_fn: dist,
    })
    .ok()?;
    let m: KMeans<F, D> = guarded(|| bincode::deserialize(&bytes).ok()).ok()??;
    if m.centroids().dim() == c.dim()
        && m.centroids()
            .iter()
            .zip(c.iter())
            .all(|(a, b)| a.d().to_bits() == b.d().to_bits())
    {
        Some(m)
    } else {
        None
    }
}

fn predict_batch<F: Fl, D: Dk<F>>(m: &KMeans<F, D>, x: ArrayView2<F>) -> Result<Vec<usize>, String> {
    guarded(|| {
        let mut lab = Array1::from_elem(x.nrows(), usize::MAX);
        m.predict_inplace(&x, &mut lab);
        lab.to_vec()
    })
}

fn transform_batch<F: Fl, D: Dk<F>>(m: &KMeans<F, D>, x: ArrayView2<F>) -> Result<Vec<f64>, String> {
    guarded(|| {
        let t: Array1<F> = m.transform(&x);
        t.iter().map(|v| v.d()).collect()
    })
}

/// backing storage + a view with the requested memory layout
struct Laid<F: Fl> {
    back: Array2<F>,
    layout: u8,
    n: usize,
    p: usize,
}
impl<F: Fl> Laid<F> {
    /// layout 0: C order, 1: Fortran order, 2: every second row / inner columns of a larger array,
    /// 3: rows stored back to front and viewed with a negative row stride (contiguous memory)
    fn new(a: &Array2<f64>, layout: u8) -> Laid<F> {
        let (n, p) = a.dim();
        let back = match layout {
            0 => a.mapv(F::f),
            1 => {
                let mut t = Array2::<F>::zeros((p, n));
                for i in 0..n {
                    for j in 0..p {
                        t[[j, i]] = F::f(a[[i, j]]);
                    }
                }
                t
            }
            3 => Array2::from_shape_fn((n, p), |(i, j)| F::f(a[[n - 1 - i, j]])),
            _ => {
                // filler cells are NaN: reading one of them would poison the result visibly
                let mut t = Array2::<F>::from_elem((2 * n + 1, p + 2), F::f(f64::NAN));
                for i in 0..n {
                    for j in 0..p {
                        t[[2 * i, j + 1]] = F::f(a[[i, j]]);
                    }
                }
                t
            }
        };
        Laid { back, layout, n, p }
    }
    fn view(&self) -> ArrayView2<F> {
        match self.layout {
            0 => self.back.view(),
            1 => self.back.view().reversed_axes(),
            3 => self.back.slice(s![..;-1, ..]),
            _ => self
                .back
                .slice(s![0..2 * self.n;2, 1..self.p + 1]),
        }
    }
}

// ------------------------------------------------------------------------------------------------
// checks shared by the families
// ------------------------------------------------------------------------------------------------

fn bbox(x: &M64) -> (Vec<f64>, Vec<f64>) {
    let mut lo = vec![f64::INFINITY; x.p];
    let mut hi = vec![f64::NEG_INFINITY; x.p];
    for i in 0..x.n {
        for (t, v) in x.row(i).iter().enumerate() {
            lo[t] = lo[t].min(*v);
            hi[t] = hi[t].max(*v);
        }
    }
    (lo, hi)
}

/// k finite centroids of the data's dimension; inside the bounding box when `from_data`
fn check_shape_finite_bbox(
    c: &mut Case,
    x: &M64,
    cen: &M64,
    k: usize,
    from_data: bool,
    eps: f64,
    tiny: f64,
) -> Option<Outcome> {
    if cen.n != k || cen.p != x.p {
        return Some(violated(
            "C09/centroids/wrong-shape",
            json!({"got": [cen.n, cen.p], "expected": [k, x.p]}),
        ));
    }
    if !cen.all_finite() {
        return Some(violated(
            "C09/centroids/non-finite",
            json!({"centroids": cen.json()}),
        ));
    }
    if from_data {
        let (lo, hi) = bbox(x);
        for j in 0..k {
            for t in 0..x.p {
                let v = cen.row(j)[t];
                // a mean of at most n+1 values inside [lo, hi], rounded: (n+2)·eps·max|.| slack
                let slack = 16.0 * (x.n as f64 + 2.0) * eps * lo[t].abs().max(hi[t].abs()) + tiny;
                let out = (lo[t] - v).max(v - hi[t]);
                if out > 0.0 {
                    c.resid("bbox/excess-over-slack", out / slack);
                }
                if out > slack {
                    return Some(violated(
                        "C09/centroids/outside-bounding-box",
                        json!({"centroid": j, "feature": t, "value": v, "lo": lo[t], "hi": hi[t], "slack": slack}),
                    ));
                }
            }
        }
    }
    None
}

/// labels returned for `x` under centroids `cen`: in range and admissible arg-mins; returns the
/// number of tie-class decisions through `ties`
fn check_labels(
    c: &mut Case,
    aspect: &str,
    mt: Metric,
    x: &M64,
    cen: &M64,
    near: &Near,
    labels: &[usize],
    rel: f64,
    tiny: f64,
) -> Option<Outcome> {
    if labels.len() != x.n {
        return Some(violated(
            format!("C09/{aspect}/wrong-length"),
            json!({"got": labels.len(), "expected": x.n}),
        ));
    }
    for i in 0..x.n {
        let l = labels[i];
        if l >= cen.n {
            return Some(violated(
                format!("C09/{aspect}/label-out-of-range"),
                json!({"row": i, "label": if l == usize::MAX { json!("unset") } else { json!(l) }, "k": cen.n}),
            ));
        }
        if l != near.lab[i] {
            let dl = mt.rdist(x.row(i), cen.row(l));
            let thr = admissible_threshold(near.d1[i], rel, tiny);
            if !(dl <= thr) {
                return Some(violated(
                    format!("C09/{aspect}/not-nearest-centroid"),
                    json!({"row": i, "x": x.row(i), "label": l, "rdist_of_label": dl,
                           "nearest": near.lab[i], "rdist_of_nearest": near.d1[i], "metric": mt.name(),
                           "centroids": cen.json()}),
                ));
            }
            c.count("tie-class/label-differs-from-first-argmin");
        }
    }
    None
}

fn check_transform(
    c: &mut Case,
    aspect: &str,
    mt: Metric,
    x: &M64,
    near: &Near,
    t: &[f64],
    rel: f64,
    tiny: f64,
) -> Option<Outcome> {
    if t.len() != x.n {
        return Some(violated(
            format!("C09/{aspect}/wrong-length"),
            json!({"got": t.len(), "expected": x.n}),
        ));
    }
    for i in 0..x.n {
        let bound = rel * near.d1[i] + tiny;
        let r = (t[i] - near.d1[i]).abs() / bound;
        c.resid(&format!("transform/{}/floor-fraction", if matches!(mt, Metric::Lp(_)) { "Lp" } else { "L1-L2-Linf" }), r);
        if !(r <= 1.0) {
            return Some(violated(
                format!("C09/{aspect}/not-minimal-reduced-distance"),
                json!({"row": i, "x": x.row(i), "got": t[i], "expected": near.d1[i],
                       "as_distance": mt.to_dist(near.d1[i]), "metric": mt.name()}),
            ));
        }
    }
    None
}

/// counts are non-negative integers summing to n
fn check_counts_sum(counts: &[f64], k: usize, n: usize) -> Option<Outcome> {
    if counts.len() != k {
        return Some(violated(
            "C09/counts/wrong-length",
            json!({"got": counts.len(), "expected": k}),
        ));
    }
    if counts.iter().any(|v| !(*v >= 0.0) || v.fract() != 0.0) {
        return Some(violated(
            "C09/counts/not-a-count",
            json!({"counts": counts}),
        ));
    }
    let s: f64 = counts.iter().sum();
    if s != n as f64 {
        return Some(violated(
            "C09/counts/do-not-sum-to-n",
            json!({"counts": counts, "sum": s, "n": n}),
        ));
    }
    None
}

/// predict (batch, single row), transform, empty batch on one set of query points
fn check_queries<F: Fl, D: Dk<F>>(
    c: &mut Case,
    which: &str,
    mt: Metric,
    model: &KMeans<F, D>,
    cen: &M64,
    q: ArrayView2<F>,
) -> Option<Outcome> {
    let q64 = M64::of(&q);
    let rel = mt.rel_floor(q64.p, F::EPS);
    let tiny = mt.tiny_d(F::TINY);
    let near = nearest(mt, &q64, cen, rel, tiny);
    c.count_n("tie-class/queries-with-near-tie", near.amb.len() as u64);
    c.count_n(&format!("queries/{which}"), q64.n as u64);
    let labels = match predict_batch(model, q) {
        Ok(l) => l,
        Err(p) => {
            return Some(violated(
                format!("C09/predict-{which}/panic"),
                json!({"panic": p}),
            ))
        }
    };
    tri_opt!(check_labels(
        c,
        &format!("predict-{which}"),
        mt,
        &q64,
        cen,
        &near,
        &labels,
        rel,
        tiny
    ));
    let t = match transform_batch(model, q) {
        Ok(t) => t,
        Err(p) => {
            return Some(violated(
                format!("C09/transform-{which}/panic"),
                json!({"panic": p}),
            ))
        }
    };
    tri_opt!(check_transform(
        c,
        &format!("transform-{which}"),
        mt,
        &q64,
        &near,
        &t,
        rel,
        tiny
    ));
    // single-row predict on a sample of rows: must be an admissible label too
    let step = (q64.n / 8).max(1);
    let mut i = 0;
    while i < q64.n {
        let row = q.row(i);
        let got = guarded(|| {
            let mut l = usize::MAX;
            model.predict_inplace(&row, &mut l);
            l
        });
        match got {
            Err(p) => {
                return Some(violated(
                    format!("C09/predict-{which}/panic"),
                    json!({"panic": p, "single_row": i}),
                ))
            }
            Ok(l) => {
                let one = M64 {
                    n: 1,
                    p: q64.p,
                    v: q64.row(i).to_vec(),
                };
                let near1 = nearest(mt, &one, cen, rel, tiny);
                tri_opt!(check_labels(
                    c,
                    &format!("predict-{which}"),
                    mt,
                    &one,
                    cen,
                    &near1,
                    &[l],
                    rel,
                    tiny
                ));
            }
        }
        i += step;
    }
    None
}


/// query points that stress the arg-min: uniform in an enlarged box, the centroids themselves,
/// midpoints of centroid pairs (near ties), far away points, copies of training rows
fn fresh_points(rng: &mut Rng, x: &M64, cen: &M64, m: usize) -> Array2<f64> {
    let (lo, hi) = bbox(x);
    let p = x.p;
    let mut out = Array2::<f64>::zeros((m, p));
    for i in 0..m {
        let kind = rng.gen_range(0..10);
        match kind {
            0 | 1 if cen.n > 0 => {
                let j = rng.gen_range(0..cen.n);
                for t in 0..p {
                    out[[i, t]] = cen.row(j)[t];
                }
            }
            2 | 3 if cen.n > 1 => {
                let a = rng.gen_range(0..cen.n);
                let b = rng.gen_range(0..cen.n);
                for t in 0..p {
                    out[[i, t]] = 0.5 * (cen.row(a)[t] + cen.row(b)[t]);
                }
            }
            4 => {
                let far = 1e3 * (1.0 + x.maxabs());
                for t in 0..p {
                    out[[i, t]] = gen::uniform(rng, -far, far);
                }
            }
            5 if x.n > 0 => {
                let r = rng.gen_range(0..x.n);
                for t in 0..p {
                    out[[i, t]] = x.row(r)[t];
                }
            }
            _ => {
                for t in 0..p {
                    let w = (hi[t] - lo[t]).max(1e-3 * (1.0 + hi[t].abs()));
                    out[[i, t]] = gen::uniform(rng, lo[t] - 0.5 * w, hi[t] + 0.5 * w);
                }
            }
        }
    }
    out
}

// ------------------------------------------------------------------------------------------------
// workload
// ------------------------------------------------------------------------------------------------

const KINDS: [&str; 12] = [
    "blobs-separated",
    "overlapping",
    "duplicates",
    "fewer-distinct-than-k",
    "lattice",
    "offset",
    "bad-scaling",
    "identical",
    "uniform",
    "box-beside-origin",
    "outlier-beside-origin",
    "remote-outliers-and-a-constant-feature",
];

fn gen_data(rng: &mut Rng, kind: usize, n: usize, p: usize, k: usize, f32_: bool) -> Array2<f64> {
    match kind {
        0 => {
            let nb = k + 1 + rng.gen_range(0..3);
            gen::blobs(rng, n, p, nb, 10.0, 0.6).0
        }
        1 => gen::blobs(rng, n, p, k.max(2), 1.0, 1.0).0,
        2 => {
            let m = (n / 4).max(2).min(n);
            let base = gen::normal_matrix(rng, m, p) * 3.0;
            Array2::from_shape_fn((n, p), {
                let idx: Vec<usize> = (0..n).map(|_| rng.gen_range(0..m)).collect();
                move |(i, j)| base[[idx[i], j]]
            })
        }
        3 => {
            let m = if k > 1 { rng.gen_range(1..k) } else { 1 };
            let base = gen::normal_matrix(rng, m, p) * 3.0;
            let idx: Vec<usize> = (0..n).map(|_| rng.gen_range(0..m)).collect();
            Array2::from_shape_fn((n, p), move |(i, j)| base[[idx[i], j]])
        }
        4 => Array2::from_shape_fn((n, p), |_| rng.gen_range(0..5) as f64),
        5 => {
            let off = if f32_ { 1e3 } else { 1e6 };
            gen::blobs(rng, n, p, k + 1, 3.0, 0.5).0 + off
        }
        6 => {
            let sc: Vec<f64> = (0..p).map(|_| 10f64.powf(gen::uniform(rng, -4.0, 4.0))).collect();
            let b = gen::blobs(rng, n, p, k + 1, 4.0, 0.7).0;
            Array2::from_shape_fn((n, p), |(i, j)| b[[i, j]] * sc[j])
        }
        7 => {
            let row = gen::normal_vec(rng, p);
            Array2::from_shape_fn((n, p), |(_, j)| row[j])
        }
        8 => gen::uniform_matrix(rng, n, p, -5.0, 5.0),
        11 => {
            // a run of points near the origin along the first feature, a few increasingly remote
            // outliers that dominate any sampling by cost (a sampling initialiser then draws very
            // few candidates), and a constant non-zero last feature: every centroid has to carry
            // exactly that constant
            let cval = *gen::pick(rng, &[5.0, -3.0, 0.5]);
            let nout = (n / 5).clamp(1, 8);
            Array2::from_shape_fn((n, p), |(i, j)| {
                if j == p - 1 && p >= 2 {
                    cval
                } else if i < n - nout {
                    (i + 1) as f64 * if j == 0 { 1.0 } else { 0.25 }
                } else {
                    let e = 2 * (i - (n - nout) + 1) as i32;
                    // far from the overflow of cubes in the element type
                    if f32_ { 10f64.powi(e.min(6)) } else { 10f64.powi(e.min(12)) }
                }
            })
        }
        10 => {
            // one or two rows just beside the origin, all others in a distant blob on the same
            // side: a zero row that is (wrongly) treated as a candidate centre is the nearest one
            // for the outliers and lies outside the bounding box
            let sign: Vec<f64> = (0..p).map(|_| if rng.gen_bool(0.5) { 1.0 } else { -1.0 }).collect();
            let near: Vec<f64> = (0..p).map(|j| sign[j] * gen::uniform(rng, 0.02, 0.3)).collect();
            let outliers = if n > 4 { 2 } else { 1 };
            Array2::from_shape_fn((n, p), |(i, j)| {
                if i < outliers {
                    near[j]
                } else {
                    sign[j] * (10.0 + rng.gen::<f64>())
                }
            })
        }
        _ => {
            // unit box whose nearest corner is a little off the origin: a centroid that is not
            // derived from the data (e.g. an unset zero row) lies just outside the bounding box
            let off: Vec<f64> = (0..p)
                .map(|_| gen::uniform(rng, 0.02, 0.3) * if rng.gen_bool(0.5) { 1.0 } else { -1.0 })
                .collect();
            Array2::from_shape_fn((n, p), |(_, j)| off[j] + off[j].signum() * rng.gen::<f64>())
        }
    }
}

fn pick_metric(rng: &mut Rng) -> Metric {
    match rng.gen_range(0..10) {
        0..=3 => Metric::L2,
        4 | 5 => Metric::L1,
        6 | 7 => Metric::LInf,
        8 => Metric::Lp(3.0),
        _ => Metric::Lp(1.5),
    }
}

fn pick_n(rng: &mut Rng, tier: Tier, big_share: u32) -> usize {
    let r = rng.gen_range(0..100u32);
    if r < 25 {
        rng.gen_range(1..=8)
    } else if r < 60 {
        rng.gen_range(9..=60)
    } else if r < 100 - big_share || tier == Tier::Quick {
        rng.gen_range(61..=400)
    } else {
        rng.gen_range(2000..=20000)
    }
}

fn distinct_rows(x: &M64) -> usize {
    let mut rows: Vec<Vec<u64>> = (0..x.n)
        .map(|i| x.row(i).iter().map(|v| v.to_bits()).collect())
        .collect();
    rows.sort();
    rows.dedup();
    rows.len()
}

// ------------------------------------------------------------------------------------------------
// family: end-state
// ------------------------------------------------------------------------------------------------

struct EndPlan {
    kind: usize,
    n: usize,
    p: usize,
    k: usize,
    init: InitKind,
    n_runs: usize,
    tol_rel: f64,
    max_iter: u64,
    layout: u8,
    qlayout: u8,
    seed: u64,
    single_thread: bool,
    data: Array2<f64>,
}

fn end_state_case<F: Fl, D: Dk<F>>(c: &mut Case, mt: Metric, pl: &EndPlan, dist: D) -> Outcome {
    let laid = Laid::<F>::new(&pl.data, pl.layout);
    let xv = laid.view();
    let x = M64::of(&xv);
    let scale = x.maxabs().max(1e-30);
    let tol = F::f((pl.tol_rel * scale).max(F::min_pos().d()));
    let init = match pl.init {
        InitKind::Random => KMeansInit::Random,
        InitKind::PlusPlus => KMeansInit::KMeansPlusPlus,
        InitKind::Para => KMeansInit::KMeansPara,
        InitKind::Precomputed => {
            // rows of the data (possibly repeated): "initialised from it"
            let idx: Vec<usize> = (0..pl.k).map(|_| c.rng.gen_range(0..pl.n)).collect();
            KMeansInit::Precomputed(Array2::from_shape_fn((pl.k, pl.p), |(j, t)| xv[[idx[j], t]]))
        }
    };
    let cfg = Cfg {
        k: pl.k,
        init,
        n_runs: pl.n_runs,
        tol,
        max_iter: pl.max_iter,
        seed: pl.seed,
        single_thread: pl.single_thread,
    };
    let fm = fit_or_return!(xv, &dist, &cfg, "fit");
    tri!(check_shape_finite_bbox(c, &x, &fm.c, pl.k, true, F::EPS, F::TINY));
    tri!(check_counts_sum(&fm.counts, pl.k, pl.n));
    ensure!(
        fm.inertia.is_finite() && fm.inertia >= 0.0,
        "C09/inertia/not-finite-non-negative",
        {"inertia": format!("{}", fm.inertia)}
    );
    // the reported inertia can never be below the cost of an optimal assignment to the *returned*
    // centroids only for L2 (one more mean step cannot raise the L2 cost); checked in `restarts`.
    tri!(check_queries(c, "training", mt, &fm.model, &fm.c, xv));
    // mostly small batches; now and then one that is longer than any internal block size and not
    // a multiple of one (batch predictions are computed block-wise / in parallel)
    let m = if c.rng.gen_range(0..25) == 0 { 2048 + c.rng.gen_range(1..1500usize) } else { c.rng.gen_range(1..=40usize) };
    let fresh = fresh_points(&mut c.rng, &x, &fm.c, m);
    let flaid = Laid::<F>::new(&fresh, pl.qlayout);
    tri!(check_queries(c, "fresh", mt, &fm.model, &fm.c, flaid.view()));
    // empty batch
    let empty = Array2::<F>::zeros((0, pl.p));
    match predict_batch(&fm.model, empty.view()) {
        Ok(l) => ensure!(l.is_empty(), "C09/predict-empty/wrong-length", {"got": l.len()}),
        Err(p) => bail!("C09/predict-empty/panic", {"panic": p}),
    }
    match transform_batch(&fm.model, empty.view()) {
        Ok(l) => ensure!(l.is_empty(), "C09/transform-empty/wrong-length", {"got": l.len()}),
        Err(p) => bail!("C09/transform-empty/panic", {"panic": p}),
    }
    c.evals = (2 * (pl.n + m) + 3) as u64;
    let distinct = distinct_rows(&x);
    c.count(&format!("init/{}", pl.init.name()));
    c.count(&format!("metric/{}", mt.name()));
    c.count(&format!("data/{}", KINDS[pl.kind]));
    c.count(&format!("float/{}", F::NAME));
    if distinct < pl.k {
        c.count("fewer-distinct-points-than-k");
    }
    held(
        pl.k >= 2 && distinct >= 2,
        format!(
            "end {} {} {} {} n={} p={} k={} runs={} it={} lay={}{} h={:x}",
            F::NAME,
            mt.name(),
            pl.init.name(),
            KINDS[pl.kind],
            pl.n,
            pl.p,
            pl.k,
            pl.n_runs,
            pl.max_iter,
            pl.layout,
            pl.qlayout,
            small_hash(&x)
        ),
    )
}

// ------------------------------------------------------------------------------------------------
// family: trajectory
// ------------------------------------------------------------------------------------------------

/// outcome of checking one iterate against its predecessor
enum StepVerdict {
    Ok,
    /// hint failed and the tie class was too large to enumerate
    Unresolved,
    Bad(Outcome),
}

/// `cur` must be the documented update of `prev` under an admissible assignment; the reported
/// counts / inertia of the model that returned `cur` must describe that assignment under `prev`.
#[allow(clippy::too_many_arguments)]
fn check_step<F: Fl>(
    c: &mut Case,
    mt: Metric,
    x: &M64,
    prev: &M64,
    cur: &M64,
    counts: &[f64],
    inertia: f64,
    hint: Option<&[usize]>,
    step_no: usize,
    // counts and inertia reported by the model that returned `prev`, and the length of the step
    // that led to `prev` (None for the initial centroids)
    prev_report: Option<(&[f64], f64, f64)>,
) -> (StepVerdict, Option<Near>) {
    let rel = mt.rel_floor(x.p, F::EPS);
    let tiny = mt.tiny_d(F::TINY);
    let near = nearest(mt, x, prev, rel, tiny);
    let k = prev.n;
    // The run may legitimately have stopped one iteration earlier: "step length < tolerance" holds
    // even for the smallest positive tolerance when the step length underflows in the element
    // type. Then the larger budget returns the previous model unchanged.
    if let Some((pc, pi, len)) = prev_report {
        if len <= mt.early_stop_floor(prev.v.len(), F::min_pos().d())
            && cur == prev
            && counts == pc
            && inertia.to_bits() == pi.to_bits()
        {
            c.count("stopped-early/step-length-underflows");
            return (StepVerdict::Ok, Some(near));
        }
    }
    // assignment used for the replay: the hint when it is admissible, else the first arg-min
    let mut assign = near.lab.clone();
    if let Some(h) = hint {
        if h.len() == x.n {
            for (i, cands) in &near.amb {
                if cands.contains(&h[*i]) {
                    assign[*i] = h[*i];
                }
            }
        }
    }
    let evaluate = |assign: &[usize]| -> (f64, Vec<usize>, M64) {
        let (want, cnt, abs) = oracle_step(x, prev, assign);
        (
            update_residual(cur, &want, &cnt, &abs, F::EPS, F::TINY),
            cnt,
            want,
        )
    };
    let (mut r, mut cnt, mut want) = evaluate(&assign);
    let counts_match = |cnt: &[usize]| -> bool {
        counts.len() == cnt.len() && counts.iter().zip(cnt.iter()).all(|(a, b)| *a == *b as f64)
    };
    if (!(r <= 1.0) || !counts_match(&cnt)) && !near.amb.is_empty() {
        // the tie class leaves freedom: accept any admissible assignment that explains the result
        let combos: f64 = near.amb.iter().map(|(_, cd)| cd.len() as f64).product();
        if combos <= 4096.0 {
            c.count("tie-class/assignment-enumerated");
            let mut idx = vec![0usize; near.amb.len()];
            let mut found = false;
            'outer: loop {
                for (a, (i, cands)) in near.amb.iter().enumerate() {
                    assign[*i] = cands[idx[a]];
                }
                let (r2, cnt2, want2) = evaluate(&assign);
                if r2 <= 1.0 && counts_match(&cnt2) {
                    r = r2;
                    cnt = cnt2;
                    want = want2;
                    found = true;
                    break 'outer;
                }
                let mut a = 0;
                loop {
                    if a == idx.len() {
                        break 'outer;
                    }
                    idx[a] += 1;
                    if idx[a] < near.amb[a].1.len() {
                        break;
                    }
                    idx[a] = 0;
                    a += 1;
                }
            }
            if !found {
                // restore the hinted assignment for the report
                let (r0, cnt0, want0) = {
                    let mut a0 = near.lab.clone();
                    if let Some(h) = hint {
                        if h.len() == x.n {
                            for (i, cands) in &near.amb {
                                if cands.contains(&h[*i]) {
                                    a0[*i] = h[*i];
                                }
                            }
                        }
                    }
                    evaluate(&a0)
                };
                r = r0;
                cnt = cnt0;
                want = want0;
            }
        } else {
            c.count("tie-class/assignment-unresolved");
            return (StepVerdict::Unresolved, Some(near));
        }
    }
    c.resid("update/fraction-of-rounding-bound", r);
    if !(r <= 1.0) {
        return (
            StepVerdict::Bad(violated(
                "C09/update/not-mean-of-assigned-points-and-old-centroid",
                json!({"step": step_no, "metric": mt.name(), "residual_over_bound": format!("{r:e}"),
                       "previous": prev.json(), "got": cur.json(), "expected": want.json(),
                       "counts_of_assignment": cnt, "near_ties": near.amb.len()}),
            )),
            Some(near),
        );
    }
    if !counts_match(&cnt) {
        return (
            StepVerdict::Bad(violated(
                "C09/counts/not-the-assignment-that-produced-the-centroids",
                json!({"step": step_no, "reported": counts, "assignment_under_previous_iterate": cnt, "k": k}),
            )),
            Some(near),
        );
    }
    // reported inertia = cost of that assignment / n
    let total = cost(&near);
    let bound = 32.0 * (x.n as f64 + x.p as f64 + 8.0) * F::EPS * total + x.n as f64 * tiny;
    let ri = (inertia * x.n as f64 - total).abs() / bound;
    c.resid("inertia/fraction-of-rounding-bound", ri);
    if !(ri <= 1.0) {
        return (
            StepVerdict::Bad(violated(
                "C09/inertia/not-mean-min-distance-of-the-run",
                json!({"step": step_no, "reported": inertia, "expected": total / x.n as f64,
                       "cost_under_returned_centroids": Value::Null, "metric": mt.name()}),
            )),
            Some(near),
        );
    }
    (StepVerdict::Ok, Some(near))
}

/// rigorous bound for the amount by which rounding of the centroids (each coordinate within
/// 2·(count+2)·eps·max|x| of the exact mean) can raise the L2 cost: cost(c+e) <= cost(c) +
/// 2·delta·sqrt(n·cost(c)) + n·delta², plus the oracle's own summation error.
fn l2_cost_slack(n: usize, p: usize, maxabs: f64, cost_prev: f64, eps: f64) -> f64 {
    let delta = 2.0 * (n as f64 + 2.0) * eps * maxabs * (p as f64).sqrt();
    2.0 * delta * (n as f64 * cost_prev).sqrt()
        + n as f64 * delta * delta
        + 8.0 * (n as f64 + p as f64 + 8.0) * f64::EPSILON * cost_prev
        + f64::MIN_POSITIVE * 1e6
}

/// The property promises a non-increasing cost for every metric. With a metric other than L2 the
/// documented update (mean of the assigned points and the old centroid) is not a descent step, so
/// the promise fails on the unchanged code although every single operation is as documented. That
/// is reported under its own signature, and only when (a) the metric is not L2, (b) the iterate
/// was verified to be exactly the documented update under an admissible arg-min assignment, and
/// (c) the increase is far above rounding. Everything else about cost keeps the strict signature.
const NON_L2_COST_INCREASE_IS_A_FINDING: bool = true;
const NON_L2_INCREASE_REL: f64 = 1e-6;
const SIG_NON_L2: &str = "C09/cost/non-L2-metric-mean-update-raises-cost";

/// what rounding of the centroid coordinates (each within 2·(n+2)·eps·max|.| of the exact mean) and
/// underflow can add to a cost whose terms are 1-Lipschitz in every coordinate (L1, L-inf, L-p)
fn non_l2_noise(mt: Metric, x: &M64, prev_maxabs: f64, eps: f64, tiny: f64) -> f64 {
    let n = x.n as f64;
    let delta = 2.0 * (n + 2.0) * eps * x.maxabs().max(prev_maxabs);
    n * x.p as f64 * delta + n * mt.tiny_d(tiny)
}

#[allow(clippy::too_many_arguments)]
fn non_l2_finding(
    mt: Metric,
    float: &str,
    budget: usize,
    cost_prev: f64,
    cost_cur: f64,
    prev: &M64,
    cur: &M64,
    x: &M64,
) -> Outcome {
    violated(
        SIG_NON_L2,
        json!({"metric": mt.name(), "float": float, "budget_small": budget - 1, "budget_large": budget,
               "cost_small_budget": cost_prev, "cost_large_budget": cost_cur,
               "centroids_small_budget": prev.json(), "centroids_large_budget": cur.json(),
               "data": x.json(), "update_verified_as_documented": true}),
    )
}

struct TrajPlan {
    kind: usize,
    n: usize,
    p: usize,
    k: usize,
    c0_kind: u8,
    steps: usize,
    layout: u8,
    data: Array2<f64>,
}

fn trajectory_case<F: Fl, D: Dk<F>>(c: &mut Case, mt: Metric, pl: &TrajPlan, dist: D) -> Outcome {
    let laid = Laid::<F>::new(&pl.data, pl.layout);
    let xv = laid.view();
    let x = M64::of(&xv);
    let (lo, hi) = bbox(&x);
    // initial centroids
    let mut from_data = false;
    let c0: Array2<F> = match pl.c0_kind {
        0 => {
            // distinct data rows (as far as n allows)
            from_data = true;
            let perm = gen::permutation(&mut c.rng, pl.n);
            Array2::from_shape_fn((pl.k, pl.p), |(j, t)| xv[[perm[j % pl.n], t]])
        }
        1 => {
            // data rows with repetition: identical centroids, exact ties
            from_data = true;
            let m = c.rng.gen_range(1..=pl.k);
            let idx: Vec<usize> = (0..m).map(|_| c.rng.gen_range(0..pl.n)).collect();
            Array2::from_shape_fn((pl.k, pl.p), |(j, t)| xv[[idx[j % m], t]])
        }
        2 => {
            let mut a = Array2::<F>::zeros((pl.k, pl.p));
            for j in 0..pl.k {
                for t in 0..pl.p {
                    a[[j, t]] = F::f(gen::uniform(&mut c.rng, lo[t], hi[t]));
                }
            }
            a
        }
        3 => {
            // one centroid far outside: owns nothing, must stay where it is
            let mut a = Array2::<F>::zeros((pl.k, pl.p));
            for j in 0..pl.k {
                for t in 0..pl.p {
                    a[[j, t]] = F::f(gen::uniform(&mut c.rng, lo[t], hi[t]));
                }
            }
            let far = 1e3 * (1.0 + x.maxabs());
            if pl.k > 1 {
                for t in 0..pl.p {
                    a[[pl.k - 1, t]] = F::f(far);
                }
            }
            a
        }
        _ => {
            // outside the box on all sides
            let mut a = Array2::<F>::zeros((pl.k, pl.p));
            for j in 0..pl.k {
                for t in 0..pl.p {
                    let w = (hi[t] - lo[t]).max(1.0);
                    a[[j, t]] = F::f(gen::uniform(&mut c.rng, lo[t] - w, hi[t] + w));
                }
            }
            a
        }
    };
    let c0m = M64::of(&c0);
    c.note("metric", json!(mt.name()));
    c.note("float", json!(F::NAME));
    c.note("data", json!(KINDS[pl.kind]));
    c.note("shape", json!([pl.n, pl.p, pl.k]));
    c.note("c0", c0m.json());
    let mk = |m: u64, tol: F, runs: usize| Cfg {
        k: pl.k,
        init: KMeansInit::Precomputed(c0.clone()),
        n_runs: runs,
        tol,
        max_iter: m,
        seed: 7,
        single_thread: false,
    };
    let mut iter: Vec<Fitted<F, D>> = Vec::with_capacity(pl.steps);
    let mut costs: Vec<f64> = Vec::with_capacity(pl.steps + 1);
    let mut moved = 0usize;
    let mut unresolved = 0usize;
    let mut stepdist: Vec<f64> = vec![];
    let mut stepdist_l2: Vec<f64> = vec![];
    let mut finding: Option<Outcome> = None;
    for m in 1..=pl.steps {
        let fm = fit_or_return!(xv, &dist, &mk(m as u64, F::min_pos(), 1), format!("fit budget {m}"));
        tri!(check_shape_finite_bbox(c, &x, &fm.c, pl.k, from_data, F::EPS, F::TINY));
        tri!(check_counts_sum(&fm.counts, pl.k, pl.n));
        let prev: &M64 = if m == 1 { &c0m } else { &iter[m - 2].c };
        // hint: what linfa's own predict says under the previous centroids
        let hint: Option<Vec<usize>> = if m == 1 {
            match model_with(&c0, &dist) {
                Some(m0) => predict_batch(&m0, xv).ok(),
                None => {
                    c.count("hint/shadow-model-unavailable");
                    None
                }
            }
        } else {
            predict_batch(&iter[m - 2].model, xv).ok()
        };
        let (v, near) = check_step::<F>(
            c,
            mt,
            &x,
            prev,
            &fm.c,
            &fm.counts,
            fm.inertia,
            hint.as_deref(),
            m,
            if m == 1 {
                None
            } else {
                Some((&iter[m - 2].counts[..], iter[m - 2].inertia, stepdist[m - 2]))
            },
        );
        let near = near.unwrap();
        let step_verified = matches!(v, StepVerdict::Ok);
        match v {
            StepVerdict::Bad(o) => return o,
            StepVerdict::Unresolved => unresolved += 1,
            StepVerdict::Ok => {}
        }
        if costs.is_empty() {
            costs.push(cost(&near));
        }
        // cost of the new centroids
        let rel = mt.rel_floor(x.p, F::EPS);
        let near_cur = nearest(mt, &x, &fm.c, rel, mt.tiny_d(F::TINY));
        let cost_cur = cost(&near_cur);
        let cost_prev = *costs.last().unwrap();
        if cost_cur > cost_prev {
            if mt == Metric::L2 {
                let slack = l2_cost_slack(x.n, x.p, x.maxabs().max(prev.maxabs()), cost_prev, F::EPS);
                c.resid("cost/L2-increase-over-rounding-slack", (cost_cur - cost_prev) / slack);
                ensure!(
                    cost_cur - cost_prev <= slack,
                    "C09/cost/increased-with-larger-budget",
                    {"budget": m, "cost_before": cost_prev, "cost_after": cost_cur, "slack": slack,
                     "previous": prev.json(), "returned": fm.c.json()}
                );
            } else if cost_cur
                > cost_prev * (1.0 + NON_L2_INCREASE_REL) + non_l2_noise(mt, &x, prev.maxabs(), F::EPS, F::TINY)
            {
                // not a theorem for the mean update under other metrics
                c.count(&format!("observation/cost-increase-non-L2/{}", mt.name()));
                c.resid("observation/non-L2-relative-cost-increase", cost_cur / cost_prev - 1.0);
                if step_verified && m >= 2 && finding.is_none() {
                    finding = Some(non_l2_finding(mt, F::NAME, m, cost_prev, cost_cur, prev, &fm.c, &x));
                }
            }
        }
        costs.push(cost_cur);
        let d = mt.dist(&prev.v, &fm.c.v);
        stepdist.push(d);
        stepdist_l2.push(Metric::L2.dist(&prev.v, &fm.c.v));
        if d > 0.0 {
            moved += 1;
        }
        // observation on the wording "inertia describes the returned centroids": linfa reports the
        // cost under the previous iterate (checked above); count how often that differs visibly
        if (fm.inertia * x.n as f64 - cost_cur).abs() > 1e-6 * cost_cur.abs().max(1e-300) {
            c.count("observation/reported-inertia-is-of-previous-iterate-not-returned");
        }
        iter.push(fm);
    }
    // more restarts from the same precomputed initialisation: nothing may change
    {
        let m = c.rng.gen_range(1..=pl.steps);
        let runs = c.rng.gen_range(2..=4);
        let fm = fit_or_return!(xv, &dist, &mk(m as u64, F::min_pos(), runs), "fit n_runs>1 precomputed");
        let base = &iter[m - 1];
        ensure!(
            fm.inertia <= base.inertia,
            "C09/restarts/inertia-increased",
            {"init": "precomputed", "n_runs": runs, "inertia": fm.inertia, "inertia_single_run": base.inertia}
        );
        ensure!(
            fm.c == base.c && fm.counts == base.counts,
            "C09/restarts/identical-restarts-change-the-result",
            {"n_runs": runs, "budget": m, "centroids": fm.c.json(), "single_run": base.c.json(),
             "counts": fm.counts, "single_run_counts": base.counts}
        );
    }
    // a real tolerance and a budget: the result must be one of the first `budget` iterates
    let mut tol_checked = 0;
    for _ in 0..3 {
        let j = c.rng.gen_range(0..stepdist.len());
        let d = stepdist[j];
        if !(d > 0.0) || !d.is_finite() {
            continue;
        }
        let tol = F::f(d * gen::uniform(&mut c.rng, 0.3, 3.0));
        if !(tol.d() > 0.0) || !tol.d().is_finite() {
            continue;
        }
        let b = c.rng.gen_range(1..=pl.steps);
        let fm = fit_or_return!(xv, &dist, &mk(b as u64, tol, 1), "fit with tolerance");
        let pos = iter
            .iter()
            .position(|it| it.c == fm.c && it.counts == fm.counts && it.inertia.to_bits() == fm.inertia.to_bits());
        match pos {
            None => bail!(
                "C09/budget/result-is-not-an-iterate-of-the-run",
                {"tolerance": tol.d(), "budget": b, "returned": fm.c.json(), "counts": fm.counts,
                 "inertia": fm.inertia, "step_lengths": stepdist}
            ),
            Some(jj) => {
                ensure!(
                    jj + 1 <= b,
                    "C09/budget/exceeded",
                    {"tolerance": tol.d(), "budget": b, "iterations_used": jj + 1}
                );
                if jj + 1 < b {
                    c.count("stopped-by-tolerance");
                } else {
                    c.count("stopped-by-budget");
                }
                // which iterate: the first one reached by a step shorter than the tolerance (in the
                // chosen metric, or - the documentation's wording - in the euclidean one), else the
                // last one of the budget. Steps within rounding of the tolerance decide nothing.
                let stop_at = |lens: &[f64]| -> Option<usize> {
                    for (j, l) in lens.iter().enumerate().take(b) {
                        if (l - tol.d()).abs() <= 64.0 * F::EPS * l.max(tol.d()) * (x.p * pl.k) as f64 {
                            return None;
                        }
                        if *l < tol.d() {
                            return Some(j);
                        }
                    }
                    Some(b - 1)
                };
                let want_metric = stop_at(&stepdist);
                let want_euclid = stop_at(&stepdist_l2);
                if let (Some(a), Some(e)) = (want_metric, want_euclid) {
                    // (iterates that coincide bit for bit are the same answer)
                    let same = |i: usize| i < iter.len() && iter[i].c == fm.c && iter[i].counts == fm.counts && iter[i].inertia.to_bits() == fm.inertia.to_bits();
                    ensure!(same(a) || same(e), "C09/tolerance/stopped-at-the-wrong-iterate",
                        {"tolerance": tol.d(), "budget": b, "returned_iterate": jj + 1, "expected_iterate_metric_reading": a + 1,
                         "expected_iterate_euclidean_reading": e + 1, "step_lengths": stepdist, "euclidean_step_lengths": stepdist_l2});
                    c.count("tolerance-stop-iterate-checked");
                }
            }
        }
        tol_checked += 1;
    }
    c.evals = (pl.steps * 4 + tol_checked + 1) as u64;
    c.count(&format!("metric/{}", mt.name()));
    c.count(&format!("float/{}", F::NAME));
    c.count(&format!("data/{}", KINDS[pl.kind]));
    c.count(&format!("c0/{}", pl.c0_kind));
    c.note("steps_that_moved", json!(moved));
    c.note("cost_first_last", json!([costs[0], costs[costs.len() - 1]]));
    if unresolved == pl.steps {
        return inconclusive("tie class: no step had an enumerable admissible assignment");
    }
    if NON_L2_COST_INCREASE_IS_A_FINDING {
        if let Some(f) = finding {
            return f;
        }
    }
    held(
        moved >= 2 && pl.k >= 2,
        format!(
            "traj {} {} {} c0={} n={} p={} k={} M={} lay={} h={:x}",
            F::NAME,
            mt.name(),
            KINDS[pl.kind],
            pl.c0_kind,
            pl.n,
            pl.p,
            pl.k,
            pl.steps,
            pl.layout,
            small_hash(&x) ^ small_hash(&c0m)
        ),
    )
}

// ------------------------------------------------------------------------------------------------
// family: restarts / budget growth with random initialisers
// ------------------------------------------------------------------------------------------------

struct RestartPlan {
    kind: usize,
    n: usize,
    p: usize,
    k: usize,
    init: InitKind,
    max_runs: usize,
    tol_rel: f64,
    budget: u64,
    seed: u64,
    layout: u8,
    data: Array2<f64>,
}

fn restart_case<F: Fl, D: Dk<F>>(c: &mut Case, mt: Metric, pl: &RestartPlan, dist: D) -> Outcome {
    let laid = Laid::<F>::new(&pl.data, pl.layout);
    let xv = laid.view();
    let x = M64::of(&xv);
    let scale = x.maxabs().max(1e-30);
    let tol = F::f((pl.tol_rel * scale).max(F::min_pos().d() * 16.0));
    let init = || match pl.init {
        InitKind::Random => KMeansInit::<F>::Random,
        InitKind::PlusPlus => KMeansInit::KMeansPlusPlus,
        _ => KMeansInit::KMeansPara,
    };
    let single = pl.init == InitKind::Para;
    let mk = |runs: usize, budget: u64, tol: F| Cfg {
        k: pl.k,
        init: init(),
        n_runs: runs,
        tol,
        max_iter: budget,
        seed: pl.seed,
        single_thread: single,
    };
    c.note("metric", json!(mt.name()));
    c.note("float", json!(F::NAME));
    c.note("init", json!(pl.init.name()));
    c.note("data", json!(KINDS[pl.kind]));
    c.note("shape", json!([pl.n, pl.p, pl.k]));
    c.note("tolerance", json!(tol.d()));
    let rel = mt.rel_floor(x.p, F::EPS);
    let tiny = mt.tiny_d(F::TINY);
    let tiny_dist = if mt == Metric::L2 { F::TINY.sqrt() } else { tiny };
    let mut prev_inertia = f64::INFINITY;
    let mut best_not_last = 0;
    let mut improved = 0;
    let mut decided_counts = 0;
    for r in 1..=pl.max_runs {
        let fm = fit_or_return!(xv, &dist, &mk(r, pl.budget, tol), format!("fit n_runs={r}"));
        tri!(check_shape_finite_bbox(c, &x, &fm.c, pl.k, true, F::EPS, F::TINY));
        tri!(check_counts_sum(&fm.counts, pl.k, pl.n));
        ensure!(
            fm.inertia.is_finite() && fm.inertia >= 0.0,
            "C09/inertia/not-finite-non-negative",
            {"inertia": format!("{}", fm.inertia)}
        );
        // (1) more restarts from the same seed never report a higher inertia (exact: the runs of
        // the shorter fit are a prefix of the runs of the longer one)
        ensure!(
            fm.inertia <= prev_inertia,
            "C09/restarts/inertia-increased",
            {"init": pl.init.name(), "n_runs": r, "inertia": fm.inertia, "inertia_with_one_run_less": prev_inertia}
        );
        if r > 1 {
            if fm.inertia == prev_inertia {
                best_not_last += 1;
            } else {
                improved += 1;
            }
        }
        prev_inertia = fm.inertia;
        // (2) inertia and counts describe the returned centroids
        let near = nearest(mt, &x, &fm.c, rel, tiny);
        let cost_ret = cost(&near);
        let reported = fm.inertia * x.n as f64;
        let sum_bound = 32.0 * (x.n as f64 + x.p as f64 + 8.0) * F::EPS;
        if mt == Metric::L2 {
            // the reported value is the cost one step earlier; a mean step cannot raise the L2 cost
            let slack = l2_cost_slack(x.n, x.p, x.maxabs(), reported, F::EPS) + sum_bound * reported;
            if cost_ret > reported {
                c.resid("inertia/L2-returned-cost-above-reported-over-slack", (cost_ret - reported) / slack);
            }
            ensure!(
                cost_ret - reported <= slack,
                "C09/inertia/below-cost-of-returned-centroids",
                {"n_runs": r, "reported_inertia_times_n": reported, "cost_of_returned_centroids": cost_ret, "slack": slack}
            );
        }
        // was the returned run stopped by the tolerance? then its last step was shorter than
        // `tol` and only points whose two nearest centroids are within 2·tol may have changed
        // sides; the budget+1 fit tells (a run cut off by the budget changes with one more step)
        let fm1 = fit_or_return!(xv, &dist, &mk(r, pl.budget + 1, tol), format!("fit n_runs={r} budget+1"));
        let converged = fm1.c == fm.c && fm1.inertia.to_bits() == fm.inertia.to_bits() && fm1.counts == fm.counts;
        if !converged {
            c.count("restarts/best-run-cut-off-by-budget");
            continue;
        }
        let t = tol.d();
        // inertia upper bound: every point's distance one step earlier is within tol of the present one
        let mut upper = 0.0;
        for i in 0..x.n {
            let d = mt.to_dist(near.d1[i]) + t;
            upper += mt.to_rdist(d);
        }
        let upper = upper * (1.0 + sum_bound + 4.0 * rel) + x.n as f64 * tiny;
        if reported > cost_ret {
            c.resid(
                "inertia/excess-over-returned-cost-as-fraction-of-tolerance-allowance",
                (reported - cost_ret) / (upper - cost_ret).max(1e-300),
            );
        }
        ensure!(
            reported <= upper,
            "C09/inertia/not-of-returned-centroids",
            {"n_runs": r, "reported_inertia_times_n": reported, "cost_of_returned_centroids": cost_ret,
             "largest_admissible": upper, "tolerance": t}
        );
        // counts: definite members <= reported <= definite + points within the slack
        let mut definite = vec![0usize; pl.k];
        let mut maybe = vec![0usize; pl.k];
        let mut ds = vec![0.0; pl.k];
        let mut slack_points = 0;
        for i in 0..x.n {
            for j in 0..pl.k {
                ds[j] = mt.dist(x.row(i), fm.c.row(j));
            }
            let dmin = ds.iter().cloned().fold(f64::INFINITY, f64::min);
            let thr = dmin * (1.0 + 12.0 * rel) + 2.0 * t * (1.0 + 1e-9) + tiny_dist;
            let cands: Vec<usize> = (0..pl.k).filter(|j| ds[*j] <= thr).collect();
            if cands.len() == 1 {
                definite[cands[0]] += 1;
            } else {
                slack_points += 1;
                for j in cands {
                    maybe[j] += 1;
                }
            }
        }
        c.count_n("restarts/points-within-tolerance-slack", slack_points as u64);
        let ok = (0..pl.k).all(|j| {
            let v = fm.counts[j];
            v >= definite[j] as f64 && v <= (definite[j] + maybe[j]) as f64
        });
        if !ok {
            // discriminate the shape of the failure for the report
            let last_run_only = r > 1;
            bail!(
                "C09/counts/not-of-returned-centroids",
                {"n_runs": r, "init": pl.init.name(), "reported_counts": fm.counts,
                 "definite_members_of_returned_centroids": definite, "undecided_within_2tol": maybe,
                 "several_runs": last_run_only, "tolerance": t}
            );
        }
        decided_counts += 1;
    }
    // (3) budget growth from a fixed initialisation (same seed, one run, negligible tolerance)
    if pl.init != InitKind::Para || single {
        let budgets = [1u64, 2, 3, 5, 8, 13, 21];
        let mut last_cost = f64::INFINITY;
        let mut last_b = 0;
        for &b in &budgets {
            let fm = fit_or_return!(xv, &dist, &mk(1, b, F::min_pos()), format!("fit budget {b}"));
            tri!(check_shape_finite_bbox(c, &x, &fm.c, pl.k, true, F::EPS, F::TINY));
            let cst = cost(&nearest(mt, &x, &fm.c, rel, tiny));
            if cst > last_cost {
                if mt == Metric::L2 {
                    let slack = (b - last_b) as f64 * l2_cost_slack(x.n, x.p, x.maxabs(), last_cost, F::EPS);
                    c.resid("cost/L2-increase-over-rounding-slack", (cst - last_cost) / slack);
                    ensure!(
                        cst - last_cost <= slack,
                        "C09/cost/increased-with-larger-budget",
                        {"init": pl.init.name(), "budget_small": last_b, "budget_large": b,
                         "cost_small": last_cost, "cost_large": cst, "slack": slack}
                    );
                } else if cst
                    > last_cost * (1.0 + NON_L2_INCREASE_REL) + non_l2_noise(mt, &x, x.maxabs(), F::EPS, F::TINY)
                {
                    // judged in the trajectory / small-scope families where the update is verified
                    c.count(&format!("observation/cost-increase-non-L2/{}", mt.name()));
                }
            }
            last_cost = cst;
            last_b = b;
        }
    }
    c.evals = (pl.max_runs * 3 + 7) as u64;
    c.count(&format!("init/{}", pl.init.name()));
    c.count(&format!("metric/{}", mt.name()));
    c.count(&format!("float/{}", F::NAME));
    c.count_n("restarts/best-run-is-not-the-last", best_not_last as u64);
    c.count_n("restarts/last-run-improved", improved as u64);
    c.count_n("restarts/counts-decided", decided_counts as u64);
    c.note("best_not_last", json!(best_not_last));
    held(
        pl.k >= 2 && best_not_last >= 1 && decided_counts >= 1,
        format!(
            "restart {} {} {} {} n={} p={} k={} R={} seed={} h={:x}",
            F::NAME,
            mt.name(),
            pl.init.name(),
            KINDS[pl.kind],
            pl.n,
            pl.p,
            pl.k,
            pl.max_runs,
            pl.seed,
            small_hash(&x)
        ),
    )
}

// ------------------------------------------------------------------------------------------------
// family: complete small scope
// ------------------------------------------------------------------------------------------------

const SCOPE_VALUES: [f64; 4] = [0.0, 1.0, 2.0, 4.0];

/// all non-decreasing sequences of length n over 0..m
fn multisets(m: usize, n: usize) -> Vec<Vec<usize>> {
    fn rec(m: usize, n: usize, start: usize, cur: &mut Vec<usize>, out: &mut Vec<Vec<usize>>) {
        if cur.len() == n {
            out.push(cur.clone());
            return;
        }
        for v in start..m {
            cur.push(v);
            rec(m, n, v, cur, out);
            cur.pop();
        }
    }
    let mut out = vec![];
    rec(m, n, 0, &mut Vec::new(), &mut out);
    out
}

/// the 1-D datasets of the scope (multisets over SCOPE_VALUES, 1 <= n <= nmax) followed by the
/// 2-D datasets (multisets of lattice points {0,1,2}², 1 <= n <= n2max)
fn scope_datasets(nmax: usize, n2max: usize) -> Vec<Array2<f64>> {
    let mut out = vec![];
    for n in 1..=nmax {
        for ms in multisets(SCOPE_VALUES.len(), n) {
            out.push(Array2::from_shape_fn((n, 1), |(i, _)| SCOPE_VALUES[ms[i]]));
        }
    }
    for n in 1..=n2max {
        for ms in multisets(9, n) {
            out.push(Array2::from_shape_fn((n, 2), |(i, j)| {
                if j == 0 {
                    (ms[i] / 3) as f64
                } else {
                    (ms[i] % 3) as f64
                }
            }));
        }
    }
    out
}

fn scope_one<F: Fl, D: Dk<F>>(
    c: &mut Case,
    mt: Metric,
    data: &Array2<f64>,
    steps: usize,
    finding: &mut Option<Outcome>,
    dist: D,
) -> Result<(u64, u64), Outcome> {
    let laid = Laid::<F>::new(data, 0);
    let xv = laid.view();
    let x = M64::of(&xv);
    let (n, p) = (x.n, x.p);
    // query grid: half-integer lattice around the data (exact ties at the midpoints)
    let grid: Array2<F> = if p == 1 {
        Array2::from_shape_fn((13, 1), |(i, _)| F::f(-1.0 + 0.5 * i as f64))
    } else {
        Array2::from_shape_fn((49, 2), |(i, j)| {
            let v = if j == 0 { i / 7 } else { i % 7 };
            F::f(-0.5 + 0.5 * v as f64)
        })
    };
    let mut fits = 0u64;
    let mut nontrivial = 0u64;
    for k in 1..=n {
        // all k-tuples of data rows (with repetition, ordered) as initial centroids
        let total = n.pow(k as u32);
        for code in 0..total {
            let mut idx = Vec::with_capacity(k);
            let mut cc = code;
            for _ in 0..k {
                idx.push(cc % n);
                cc /= n;
            }
            let c0 = Array2::from_shape_fn((k, p), |(j, t)| xv[[idx[j], t]]);
            let c0m = M64::of(&c0);
            let mut prev_model: Option<Fitted<F, D>> = None;
            let mut prev_cost = f64::INFINITY;
            let mut moved = 0;
            let mut prev_len = 0.0;
            for m in 1..=steps {
                let cfg = Cfg {
                    k,
                    init: KMeansInit::Precomputed(c0.clone()),
                    n_runs: 1,
                    tol: F::min_pos(),
                    max_iter: m as u64,
                    seed: 1,
                    single_thread: false,
                };
                let fm = match fit(xv, &dist, &cfg) {
                    FitRes::Ok(f) => f,
                    FitRes::Err(e) => return Err(inconclusive(format!("fit returned Err: {e}"))),
                    FitRes::Panic(pn) => {
                        return Err(violated(
                            "C09/fit/panic",
                            json!({"panic": pn, "data": x.json(), "c0": c0m.json(), "budget": m}),
                        ))
                    }
                };
                fits += 1;
                if let Some(o) = check_shape_finite_bbox(c, &x, &fm.c, k, true, F::EPS, F::TINY) {
                    return Err(o);
                }
                if let Some(o) = check_counts_sum(&fm.counts, k, n) {
                    return Err(o);
                }
                let prev: &M64 = match &prev_model {
                    None => &c0m,
                    Some(pm) => &pm.c,
                };
                let hint = match &prev_model {
                    None => model_with(&c0, &dist).and_then(|m0| predict_batch(&m0, xv).ok()),
                    Some(pm) => predict_batch(&pm.model, xv).ok(),
                };
                let (v, near) = check_step::<F>(
                    c,
                    mt,
                    &x,
                    prev,
                    &fm.c,
                    &fm.counts,
                    fm.inertia,
                    hint.as_deref(),
                    m,
                    prev_model.as_ref().map(|pm| (&pm.counts[..], pm.inertia, prev_len)),
                );
                let step_verified = matches!(v, StepVerdict::Ok);
                match v {
                    StepVerdict::Bad(Outcome::Violated { sig, mut detail }) => {
                        detail["data"] = x.json();
                        detail["c0"] = c0m.json();
                        detail["float"] = json!(F::NAME);
                        return Err(violated(sig, detail));
                    }
                    StepVerdict::Bad(o) => return Err(o),
                    _ => {}
                }
                let near = near.unwrap();
                if m == 1 {
                    prev_cost = cost(&near);
                }
                let rel = mt.rel_floor(p, F::EPS);
                let near_cur = nearest(mt, &x, &fm.c, rel, mt.tiny_d(F::TINY));
                let cc = cost(&near_cur);
                if mt == Metric::L2 && cc > prev_cost {
                    let slack = l2_cost_slack(n, p, x.maxabs(), prev_cost, F::EPS);
                    c.resid("cost/L2-increase-over-rounding-slack", (cc - prev_cost) / slack);
                    if cc - prev_cost > slack {
                        return Err(violated(
                            "C09/cost/increased-with-larger-budget",
                            json!({"budget": m, "cost_before": prev_cost, "cost_after": cc,
                                   "data": x.json(), "c0": c0m.json()}),
                        ));
                    }
                } else if mt != Metric::L2
                    && cc > prev_cost * (1.0 + NON_L2_INCREASE_REL)
                        + non_l2_noise(mt, &x, prev.maxabs(), F::EPS, F::TINY)
                {
                    c.count(&format!("observation/cost-increase-non-L2/{}", mt.name()));
                    c.resid("observation/non-L2-relative-cost-increase", cc / prev_cost - 1.0);
                    if step_verified && m >= 2 && finding.is_none() {
                        *finding = Some(non_l2_finding(mt, F::NAME, m, prev_cost, cc, prev, &fm.c, &x));
                    }
                }
                prev_cost = cc;
                prev_len = mt.dist(&prev.v, &fm.c.v);
                if fm.c != *prev {
                    moved += 1;
                }
                // assignment of training rows and of the tie-rich grid under the last iterate
                if m == steps {
                    if let Some(o) = check_queries(c, "training", mt, &fm.model, &fm.c, xv) {
                        return Err(o);
                    }
                    if let Some(o) = check_queries(c, "fresh", mt, &fm.model, &fm.c, grid.view()) {
                        return Err(o);
                    }
                }
                prev_model = Some(fm);
            }
            if moved >= 1 && k >= 2 {
                nontrivial += 1;
            }
        }
    }
    Ok((fits, nontrivial))
}

// ------------------------------------------------------------------------------------------------

pub fn run(ctx: &Ctx) {
    ctx.set_rule(
        "end-state: random (float type, metric, data kind, n, p, k<=n, initialiser, n_runs, tolerance, budget, \
         memory layout); non-trivial = k>=2 and >=2 distinct rows. trajectory: Precomputed c0 (data rows, repeated \
         rows, in-box, far-away, out-of-box), budgets 1..M; non-trivial = k>=2 and >=2 budgets changed the centroids. \
         restarts: same seed, n_runs 1..R; non-trivial = k>=2, some added restart did not improve (best run is not \
         the last) and the count check was decided. small-scope: every dataset/k/initial tuple of the scope; \
         non-trivial = k>=2 and centroids moved. Distinct key = parameters + hash of data (and c0).",
    );
    ctx.assume("f64 arithmetic of the oracle is exact relative to the floors used (inputs are the exact f32/f64 values linfa saw)");
    ctx.assume("the iterates of a run are observed as the results of fits with max_n_iterations = 1..M from the same precomputed centroids, n_runs = 1, tolerance = smallest positive normal");
    ctx.assume("'inertia and counts describe the returned centroids' is read operationally: they are the cost / histogram of the assignment that produced the returned centroids (one mean step earlier); for converged runs this differs from the assignment under the returned centroids only for points whose two nearest centroids are within 2·tolerance");
    ctx.assume("linfa's own predict under the previous centroids is used as a hint to resolve exact distance ties; the hint is only accepted when it is an admissible arg-min");
    ctx.assume("a fit whose result is bit-identical with budget B and B+1 had its returned run stopped by the tolerance, not the budget");

    let tier = ctx.tier;

    // ---- end-state
    let n_end = tier.pick(1500, 8000);
    ctx.family("end-state", n_end, |c| {
        let f32_ = c.rng.gen_bool(0.4);
        let mt = pick_metric(&mut c.rng);
        let kind = c.rng.gen_range(0..KINDS.len());
        let n = pick_n(&mut c.rng, c.tier, 3);
        let p = *gen::pick(&mut c.rng, &[1usize, 1, 2, 2, 3, 5, 8]);
        let k = if c.rng.gen_bool(0.1) {
            n.min(12)
        } else {
            c.rng.gen_range(1..=n.min(8))
        };
        let init = *gen::pick(
            &mut c.rng,
            &[InitKind::Random, InitKind::PlusPlus, InitKind::Para, InitKind::Precomputed],
        );
        let data = gen_data(&mut c.rng, kind, n, p, k, f32_);
        let pl = EndPlan {
            kind,
            n,
            p,
            k,
            init,
            n_runs: c.rng.gen_range(1..=3),
            tol_rel: gen::log_uniform(&mut c.rng, 1e-8, 1e-1),
            max_iter: *gen::pick(&mut c.rng, &[1u64, 2, 5, 30, 300]),
            layout: c.rng.gen_range(0..4),
            qlayout: c.rng.gen_range(0..4),
            seed: c.rng.gen(),
            single_thread: init == InitKind::Para && c.rng.gen_bool(0.5),
            data,
        };
        c.note("float", json!(if f32_ { "f32" } else { "f64" }));
        c.note("metric", json!(mt.name()));
        c.note("data", json!(KINDS[kind]));
        c.note("shape", json!([n, p, k]));
        c.note("init", json!(init.name()));
        c.note("n_runs", json!(pl.n_runs));
        c.note("max_iter", json!(pl.max_iter));
        c.note("layouts", json!([pl.layout, pl.qlayout]));
        c.note("para_single_thread", json!(pl.single_thread));
        dispatch!(f32_, mt, end_state_case(c, mt, &pl))
    });

    // ---- the sampling initialiser when its rounds draw far fewer candidates than it has room for
    ctx.family("para-sparse-candidates", tier.pick(240, 1500), |c| {
        let f32_ = c.idx % 5 == 4;
        let mt = if c.idx % 7 == 6 { Metric::L1 } else { Metric::L2 };
        let kind = 11;
        let n = c.rng.gen_range(20..46);
        let p = 2;
        let k = 2 + (c.idx % 2) as usize;
        let data = gen_data(&mut c.rng, kind, n, p, k, f32_);
        let pl = EndPlan {
            kind,
            n,
            p,
            k,
            init: InitKind::Para,
            n_runs: 1,
            tol_rel: 1e-6,
            max_iter: [1u64, 2, 30][(c.idx / 2 % 3) as usize],
            layout: 0,
            qlayout: 0,
            seed: c.idx,
            single_thread: c.idx % 4 == 0,
            data,
        };
        c.note("float", json!(if f32_ { "f32" } else { "f64" }));
        c.note("metric", json!(mt.name()));
        c.note("shape", json!([n, p, k]));
        c.note("max_iter", json!(pl.max_iter));
        c.note("seed", json!(pl.seed));
        dispatch!(f32_, mt, end_state_case(c, mt, &pl))
    });

    // ---- trajectory
    let n_traj = tier.pick(800, 5000);
    ctx.family("trajectory", n_traj, |c| {
        let f32_ = c.rng.gen_bool(0.4);
        let mt = pick_metric(&mut c.rng);
        let kind = c.rng.gen_range(0..KINDS.len());
        let n = pick_n(&mut c.rng, c.tier, 2);
        let p = *gen::pick(&mut c.rng, &[1usize, 1, 2, 2, 3, 5]);
        let k = c.rng.gen_range(1..=n.min(8));
        let data = gen_data(&mut c.rng, kind, n, p, k, f32_);
        let big = n > 1000;
        let pl = TrajPlan {
            kind,
            n,
            p,
            k,
            c0_kind: c.rng.gen_range(0..5),
            steps: if big { 8 } else { c.tier.pick(12, 25) },
            layout: c.rng.gen_range(0..4),
            data,
        };
        dispatch!(f32_, mt, trajectory_case(c, mt, &pl))
    });

    // ---- restarts
    let n_res = tier.pick(300, 1200);
    ctx.family("restarts", n_res, |c| {
        let f32_ = c.rng.gen_bool(0.35);
        let mt = pick_metric(&mut c.rng);
        // mostly data with several local optima: more blobs than clusters
        let kind = *gen::pick(&mut c.rng, &[0usize, 0, 0, 0, 1, 1, 2, 4, 6, 8, 9, 10]);
        let init = *gen::pick(
            &mut c.rng,
            &[InitKind::Random, InitKind::Random, InitKind::PlusPlus, InitKind::PlusPlus, InitKind::Para],
        );
        // k-means|| runs in a 1-thread pool (reproducible): keep those cases small
        let big = c.tier == Tier::Thorough && init != InitKind::Para && c.rng.gen_bool(0.02);
        let n = if big {
            c.rng.gen_range(2000..=10000)
        } else {
            c.rng.gen_range(12..=400)
        };
        let p = *gen::pick(&mut c.rng, &[1usize, 2, 2, 3, 5]);
        let k = c.rng.gen_range(2..=n.min(8));
        let data = gen_data(&mut c.rng, kind, n, p, k, f32_);
        let pl = RestartPlan {
            kind,
            n,
            p,
            k,
            init,
            max_runs: if big { 3 } else { c.tier.pick(4, 6) },
            tol_rel: gen::log_uniform(&mut c.rng, 1e-9, 1e-3),
            budget: 500,
            seed: c.rng.gen(),
            layout: c.rng.gen_range(0..4),
            data,
        };
        dispatch!(f32_, mt, restart_case(c, mt, &pl))
    });

    // ---- complete small scope
    let (nmax, n2max, steps) = tier.pick((3usize, 2usize, 4usize), (4, 3, 5));
    let sets = scope_datasets(nmax, n2max);
    ctx.set_exhaustive(
        &format!(
            "1-D multisets over {{0,1,2,4}} with n<={nmax} and 2-D multisets over {{0,1,2}}^2 with n<={n2max}; \
             every k<=n; every ordered k-tuple of data rows as initial centroids; budgets 1..{steps}; \
             metrics L1,L2,Linf; f32 and f64"
        ),
        true,
    );
    ctx.family("small-scope", sets.len() as u64, |c| {
        let data = &sets[c.idx as usize];
        c.note("data", json!(data.rows().into_iter().map(|r| r.to_vec()).collect::<Vec<_>>()));
        let mut fits = 0;
        let mut nontrivial = 0;
        let mut finding: Option<Outcome> = None;
        for f32_ in [false, true] {
            for mt in [Metric::L2, Metric::L1, Metric::LInf] {
                let r = dispatch!(f32_, mt, scope_one(c, mt, data, steps, &mut finding));
                match r {
                    Ok((a, b)) => {
                        fits += a;
                        nontrivial += b;
                    }
                    Err(o) => return o,
                }
            }
        }
        c.evals = fits;
        c.count_n("small-scope/fits", fits);
        c.count_n("small-scope/nontrivial-trajectories", nontrivial);
        if NON_L2_COST_INCREASE_IS_A_FINDING {
            if let Some(f) = finding {
                return f;
            }
        }
        held(nontrivial > 0, format!("scope dataset #{}", c.idx))
    });
}
