//! C20 — same data, parameters and seed give bit-identical results on every run.
//!
//! Every estimator is fitted repeatedly from the same data/parameters/seed (a) inside rayon pools of
//! 1..16 threads with competing noise threads, (b) in fresh child processes (fresh hash seeds,
//! different RAYON_NUM_THREADS); the canonical dump of all learned quantities and predictions
//! (bit patterns; label- and word-indexed outputs keyed by label / word) must be identical.
use crate::fw::*;
use crate::ser::{self, fb, fbs, Behaviour};
use crate::zoo::{self, make_data};
use linfa::traits::*;
use linfa::dataset::AsSingleTargets;
use linfa::{Dataset, DatasetBase};
use ndarray::{Array1, Array2};
use rand::SeedableRng;
use rayon::prelude::*;
use serde_json::json;
use std::collections::{BTreeMap, BTreeSet};
use std::hash::{Hash, Hasher};
use std::sync::atomic::{AtomicBool, Ordering};
use std::sync::Arc;

type DetBuilder = Box<dyn Fn() -> Result<Behaviour, String> + Send + Sync>;

fn h(s: &str) -> String {
    #[allow(deprecated)]
    let mut hs = std::hash::SipHasher::new();
    s.hash(&mut hs);
    format!("{:016x}", hs.finish())
}

fn arr2(a: &Array2<f64>) -> String {
    format!("{:?}|{}", a.dim(), fbs(a.iter()))
}
fn es<E: std::fmt::Display>(e: E) -> String {
    format!("fit error: {e}")
}

fn big_blobs(seed: u64, n: usize, p: usize) -> Array2<f64> {
    make_data(seed, n, p, false).x
}

/// estimators that only exist for this property (large parallel fits, hash-order sensitive cases,
/// default-seeded builders)
fn extra_builders(tier: Tier) -> Vec<(String, DetBuilder)> {
    use linfa_clustering::{GaussianMixtureModel, KMeans, KMeansInit};
    use linfa_nn::distance::{L1Dist, L2Dist};
    let nbig = tier.pick(20_000, 100_000);
    let mut v: Vec<(String, DetBuilder)> = vec![];
    macro_rules! kmeans {
        ($name:expr, $init:expr, $dist:expr) => {
            v.push(($name.to_string(), Box::new(move || {
                let x = big_blobs(5, nbig, 4);
                let probe = zoo::probe(1, 64, 4, false);
                let ds = DatasetBase::from(x);
                let m = KMeans::params_with(5, rand_xoshiro::Xoshiro256Plus::seed_from_u64(42), $dist)
                    .init_method($init)
                    .n_runs(2)
                    .max_n_iterations(15)
                    .tolerance(1e-9)
                    .fit(&ds)
                    .map_err(es)?;
                let y: Array1<usize> = m.predict(&probe);
                Ok(vec![
                    ("centroids".into(), arr2(m.centroids())),
                    ("cluster_count".into(), fbs(m.cluster_count().iter())),
                    ("inertia".into(), fb(m.inertia())),
                    ("predict".into(), format!("{:?}", y.to_vec())),
                    ("transform".into(), fbs(m.transform(&probe).iter())),
                ])
            })));
        };
    }
    kmeans!("kmeans-large-random-l2", KMeansInit::Random, L2Dist);
    kmeans!("kmeans-large-plusplus-l2", KMeansInit::KMeansPlusPlus, L2Dist);
    kmeans!("kmeans-large-plusplus-l1", KMeansInit::KMeansPlusPlus, L1Dist);
    kmeans!("kmeans-large-precomputed-l2", KMeansInit::Precomputed(zoo::probe(9, 5, 4, false)), L2Dist);
    // configurations off the beaten path of the initialisers: many clusters (an implementation may
    // switch strategy with the cluster count), fewer distinct observations than clusters (the
    // "all remaining distances are zero" fallback)
    for (tag, init) in [("plusplus", KMeansInit::KMeansPlusPlus), ("random", KMeansInit::Random)] {
        let init_a = init.clone();
        v.push((format!("kmeans-110-clusters-{tag}"), Box::new(move || {
            let x = big_blobs(21, 1200, 3);
            let ds = DatasetBase::from(x);
            let m = KMeans::params_with(110, rand_xoshiro::Xoshiro256Plus::seed_from_u64(3), L2Dist)
                .init_method(init_a.clone())
                .max_n_iterations(3)
                .tolerance(1e-9)
                .fit(&ds)
                .map_err(es)?;
            Ok(vec![("centroids".into(), arr2(m.centroids())), ("inertia".into(), fb(m.inertia()))])
        })));
        v.push((format!("kmeans-fewer-distinct-points-than-clusters-{tag}"), Box::new(move || {
            let pts = [[0.0, 0.0], [1.0, 0.0], [0.0, 2.0], [3.0, 3.0]];
            let x = Array2::from_shape_fn((48, 2), |(i, j)| pts[i % 4][j]);
            let ds = DatasetBase::from(x);
            let r = KMeans::params_with(7, rand_xoshiro::Xoshiro256Plus::seed_from_u64(11), L2Dist)
                .init_method(init.clone())
                .max_n_iterations(10)
                .fit(&ds);
            // an error is as reproducible a result as a model
            Ok(match r {
                Ok(m) => vec![("centroids".into(), arr2(m.centroids())), ("cluster_count".into(), fbs(m.cluster_count().iter())), ("inertia".into(), fb(m.inertia()))],
                Err(e) => vec![("error".into(), format!("{e}"))],
            })
        })));
    }
    v.push(("kmeans-default-seed".into(), Box::new(move || {
        let ds = DatasetBase::from(big_blobs(6, 4000, 3));
        let m = KMeans::params(4).max_n_iterations(20).fit(&ds).map_err(es)?;
        Ok(vec![("centroids".into(), arr2(m.centroids())), ("inertia".into(), fb(m.inertia()))])
    })));
    v.push(("kmeans-incremental-default-seed".into(), Box::new(move || {
        let x = big_blobs(7, 6000, 3);
        let params = KMeans::params(3).tolerance(1e-3);
        let mut model: Option<KMeans<f64, L2Dist>> = None;
        for chunk in x.axis_chunks_iter(ndarray::Axis(0), 1500) {
            let ds = DatasetBase::from(chunk.to_owned());
            model = Some(match params.fit_with(model.take(), &ds) {
                Ok(m) => m,
                Err(linfa_clustering::IncrKMeansError::NotConverged(m)) => m,
                Err(e) => return Err(es(e)),
            });
        }
        let m = model.unwrap();
        Ok(vec![("centroids".into(), arr2(m.centroids())), ("cluster_count".into(), fbs(m.cluster_count().iter()))])
    })));
    v.push(("kmeans-incremental-large-batches".into(), Box::new(move || {
        // batches long enough that an implementation would summarise them block-wise per worker
        let x = big_blobs(27, 24_000, 3);
        let params = KMeans::params_with_rng(4, rand_xoshiro::Xoshiro256Plus::seed_from_u64(2)).tolerance(1e-3);
        let mut model: Option<KMeans<f64, L2Dist>> = None;
        for chunk in x.axis_chunks_iter(ndarray::Axis(0), 6000) {
            let ds = DatasetBase::from(chunk.to_owned());
            model = Some(match params.fit_with(model.take(), &ds) {
                Ok(m) => m,
                Err(linfa_clustering::IncrKMeansError::NotConverged(m)) => m,
                Err(e) => return Err(es(e)),
            });
        }
        let m = model.unwrap();
        Ok(vec![("centroids".into(), arr2(m.centroids())), ("cluster_count".into(), fbs(m.cluster_count().iter()))])
    })));
    v.push(("gmm-random-init-large".into(), Box::new(move || {
        use linfa_clustering::GmmInitMethod;
        let ds = DatasetBase::from(big_blobs(28, 9000, 2));
        let m = GaussianMixtureModel::params_with_rng(2, rand_xoshiro::Xoshiro256Plus::seed_from_u64(7)).init_method(GmmInitMethod::Random).max_n_iterations(6).fit(&ds);
        match m {
            Ok(m) => Ok(vec![("weights".into(), fbs(m.weights().iter())), ("means".into(), arr2(m.means()))]),
            Err(e) => Ok(vec![("fit-error".into(), format!("{e}"))]),
        }
    })));
    v.push(("gmm-nine-components".into(), Box::new(move || {
        // enough components that per-component work would be worth spreading over workers
        let ds = DatasetBase::from(big_blobs(29, 1800, 2));
        let m = GaussianMixtureModel::params_with_rng(9, rand_xoshiro::Xoshiro256Plus::seed_from_u64(3)).max_n_iterations(8).reg_covariance(1e-3).fit(&ds);
        match m {
            Ok(m) => Ok(vec![("weights".into(), fbs(m.weights().iter())), ("means".into(), arr2(m.means())), ("precisions".into(), fbs(m.precisions().iter()))]),
            Err(e) => Ok(vec![("fit-error".into(), format!("{e}"))]),
        }
    })));
    v.push(("gmm-large".into(), Box::new(move || {
        let ds = DatasetBase::from(big_blobs(8, nbig / 10, 3));
        let m = GaussianMixtureModel::params_with_rng(3, rand_xoshiro::Xoshiro256Plus::seed_from_u64(42)).n_runs(2).max_n_iterations(30).fit(&ds).map_err(es)?;
        let probe = zoo::probe(2, 32, 3, false);
        Ok(vec![
            ("weights".into(), fbs(m.weights().iter())),
            ("means".into(), arr2(m.means())),
            ("covariances".into(), fbs(m.covariances().iter())),
            ("predict_proba".into(), arr2(&m.predict_proba(&probe))),
        ])
    })));
    for (tag, seeded) in [("default-seed", false), ("seed-7", true)] {
        v.push((format!("gmm-random-init-{tag}"), Box::new(move || {
            use linfa_clustering::GmmInitMethod;
            let ds = DatasetBase::from(big_blobs(9, 400, 2));
            let m = if seeded {
                GaussianMixtureModel::params_with_rng(3, rand_xoshiro::Xoshiro256Plus::seed_from_u64(7)).init_method(GmmInitMethod::Random).max_n_iterations(40).fit(&ds)
            } else {
                GaussianMixtureModel::params(3).init_method(GmmInitMethod::Random).max_n_iterations(40).fit(&ds)
            };
            match m {
                Ok(m) => Ok(vec![("weights".into(), fbs(m.weights().iter())), ("means".into(), arr2(m.means()))]),
                // whether the fit converges is part of what must be reproducible
                Err(e) => Ok(vec![("fit-error".into(), format!("{e}"))]),
            }
        })));
    }
    v.push(("gaussian-nb-incremental-many-classes".into(), Box::new(|| {
        // incremental fits with several classes and a visible smoothing term: the running statistics
        // are kept per class in a hash map
        let d = make_data(41, 240, 3, false);
        let y = Array1::from_shape_fn(240, |i| (d.blob[i] * 5 + i % 3) * 11);
        let params = linfa_bayes::GaussianNb::<f64, usize>::params().var_smoothing(0.05);
        let mut model = None;
        for k in 0..6 {
            let lo = k * 40;
            let ds = Dataset::new(d.x.slice(ndarray::s![lo..lo + 40, ..]).to_owned(), y.slice(ndarray::s![lo..lo + 40]).to_owned());
            model = params.fit_with(model, &ds).map_err(es)?;
        }
        let m = model.ok_or("no model")?;
        let p: Array1<usize> = m.predict(&zoo::probe(5, 40, 3, false));
        let img = serde_json::to_string(&serde_json::to_value(&m).map_err(es)?).map_err(es)?;
        Ok(vec![("predict".into(), format!("{:?}", p.to_vec())), ("serde-image".into(), img)])
    })));
    v.push(("tree-features-list".into(), Box::new(|| {
        let d = make_data(13, 300, 6, false);
        let m = linfa_trees::DecisionTree::params().max_depth(Some(5)).fit(&Dataset::new(d.x.clone(), d.ycls.clone())).map_err(es)?;
        Ok(vec![("features".into(), format!("{:?}", m.features()))])
    })));
    v.push(("gmm-default-seed".into(), Box::new(move || {
        let ds = DatasetBase::from(big_blobs(8, 800, 2));
        let m = GaussianMixtureModel::params(3).fit(&ds).map_err(es)?;
        Ok(vec![("weights".into(), fbs(m.weights().iter())), ("means".into(), arr2(m.means()))])
    })));
    // ---- hash-order sensitive
    for (k, method) in [("average", linfa_hierarchical::Method::Average), ("single", linfa_hierarchical::Method::Single), ("ward", linfa_hierarchical::Method::Ward)] {
        v.push((format!("hierarchical-{k}"), Box::new(move || {
            use linfa_kernel::{Kernel, KernelMethod};
            let x = big_blobs(11, 60, 2);
            let kernel = Kernel::params().method(KernelMethod::Gaussian(5.0)).transform(x.view());
            let out = linfa_hierarchical::HierarchicalCluster::default().with_method(method).num_clusters(4).transform(kernel).map_err(es)?;
            Ok(vec![("labels".into(), format!("{:?}", out.targets()))])
        })));
    }
    v.push(("tree-tied-leaves".into(), Box::new(|| {
        // duplicated points with conflicting labels: every leaf frequency is tied
        let x = ndarray::array![[0.0, 1.0], [0.0, 1.0], [1.0, 0.0], [1.0, 0.0], [2.0, 2.0], [2.0, 2.0]];
        let y = ndarray::array![0usize, 1, 2, 3, 4, 5];
        let ds = Dataset::new(x.clone(), y);
        let m = linfa_trees::DecisionTree::params().fit(&ds).map_err(es)?;
        let p: Array1<usize> = m.predict(&x);
        Ok(vec![("predict".into(), format!("{:?}", p.to_vec()))])
    })));
    v.push(("tree-many-classes-impurity".into(), Box::new(|| {
        let d = make_data(13, 400, 4, false);
        let y = d.ycls.mapv(|c| c * 7 + (c % 2)) + Array1::from_shape_fn(400, |i| (i % 5) * 100);
        let ds = Dataset::new(d.x.clone(), y).with_weights(Array1::from_shape_fn(400, |i| 0.1 + (i % 7) as f32 * 0.3));
        let m = linfa_trees::DecisionTree::params().max_depth(Some(6)).fit(&ds).map_err(es)?;
        let p: Array1<usize> = m.predict(&zoo::probe(3, 50, 4, false));
        Ok(vec![
            ("predict".into(), format!("{:?}", p.to_vec())),
            ("feature_importance".into(), fbs(m.feature_importance().iter())),
            ("relative_impurity_decrease".into(), fbs(m.relative_impurity_decrease().iter())),
            ("structure".into(), format!("{}/{}", m.max_depth(), m.num_leaves())),
        ])
    })));
    v.push(("gaussian-nb-tied-posteriors".into(), Box::new(|| {
        // mirror-symmetric classes: the query on the symmetry axis has exactly tied posteriors
        let x = ndarray::array![[-1.0, 0.0], [-3.0, 0.0], [1.0, 0.0], [3.0, 0.0], [-2.0, 1.0], [2.0, 1.0], [-2.0, -1.0], [2.0, -1.0]];
        let y = ndarray::array![10usize, 10, 20, 20, 10, 20, 10, 20];
        let m = linfa_bayes::GaussianNb::params().fit(&Dataset::new(x, y)).map_err(es)?;
        let q = ndarray::array![[0.0, 0.0], [0.0, 5.0], [0.0, -2.5]];
        let p: Array1<usize> = m.predict(&q);
        Ok(vec![("predict".into(), format!("{:?}", p.to_vec()))])
    })));
    v.push(("multinomial-nb-tied-posteriors".into(), Box::new(|| {
        let x = ndarray::array![[1.0, 2.0], [2.0, 1.0], [1.0, 2.0], [2.0, 1.0], [1.0, 2.0], [2.0, 1.0]];
        let y = ndarray::array![5usize, 5, 6, 6, 7, 7];
        let m = linfa_bayes::MultinomialNb::params().fit(&Dataset::new(x, y)).map_err(es)?;
        let q = ndarray::array![[0.0, 0.0], [3.0, 3.0], [1.0, 0.0]];
        let p: Array1<usize> = m.predict(&q);
        Ok(vec![("predict".into(), format!("{:?}", p.to_vec()))])
    })));
    // ---- default-seeded projections / decompositions
    v.push(("gaussian-random-projection-default".into(), Box::new(|| {
        use linfa_reduction::random_projection::GaussianRandomProjection;
        let x = big_blobs(15, 50, 30);
        let m = GaussianRandomProjection::<f64>::params().target_dim(5).fit(&DatasetBase::from(x.clone())).map_err(es)?;
        let t: Array2<f64> = m.transform(&x);
        Ok(vec![("transform".into(), arr2(&t))])
    })));
    v.push(("sparse-random-projection-default".into(), Box::new(|| {
        use linfa_reduction::random_projection::SparseRandomProjection;
        let x = big_blobs(15, 50, 30);
        let m = SparseRandomProjection::<f64>::params().target_dim(5).fit(&DatasetBase::from(x.clone())).map_err(es)?;
        let t: Array2<f64> = m.transform(&x);
        Ok(vec![("transform".into(), arr2(&t))])
    })));
    v.push(("diffusion-map".into(), Box::new(|| {
        use linfa_kernel::{Kernel, KernelMethod, KernelType};
        let x = big_blobs(16, 80, 2);
        let kernel = Kernel::params().kind(KernelType::Sparse(8)).method(KernelMethod::Gaussian(3.0)).transform(x.view());
        let m = linfa_reduction::DiffusionMap::<f64>::params(2).steps(1).transform(&kernel).map_err(es)?;
        Ok(vec![("embedding".into(), arr2(m.embedding())), ("eigvals".into(), fbs(m.eigvals().iter()))])
    })));
    // ---- boundary seeds: the claim is "same seed", whatever the seed (0 and the maximum included)
    for seed in [0usize, 1, 42, usize::MAX] {
        v.push((format!("fastica-random-state-{seed}"), Box::new(move || {
            let d = make_data(31, 200, 3, false);
            let m = linfa_ica::fast_ica::FastIca::<f64>::params().ncomponents(2).random_state(seed).fit(&DatasetBase::from(d.x.clone())).map_err(es)?;
            let y: Array2<f64> = m.predict(&zoo::probe(4, 10, 3, false));
            Ok(vec![("predict".into(), arr2(&y))])
        })));
        v.push((format!("kmeans-seed-{seed}"), Box::new(move || {
            let ds = DatasetBase::from(big_blobs(6, 600, 2));
            let m = KMeans::params_with_rng(3, rand_xoshiro::Xoshiro256Plus::seed_from_u64(seed as u64)).max_n_iterations(10).fit(&ds).map_err(es)?;
            Ok(vec![("centroids".into(), arr2(m.centroids())), ("inertia".into(), fb(m.inertia()))])
        })));
        v.push((format!("gmm-seed-{seed}"), Box::new(move || {
            let ds = DatasetBase::from(big_blobs(8, 300, 2));
            let m = GaussianMixtureModel::params_with_rng(2, rand_xoshiro::Xoshiro256Plus::seed_from_u64(seed as u64)).max_n_iterations(20).fit(&ds).map_err(es)?;
            Ok(vec![("means".into(), arr2(m.means())), ("weights".into(), fbs(m.weights().iter()))])
        })));
        v.push((format!("gaussian-random-projection-seed-{seed}"), Box::new(move || {
            use linfa_reduction::random_projection::GaussianRandomProjection;
            let x = big_blobs(15, 30, 20);
            let m = GaussianRandomProjection::<f64>::params_with_rng(rand_xoshiro::Xoshiro256Plus::seed_from_u64(seed as u64)).target_dim(4).fit(&DatasetBase::from(x.clone())).map_err(es)?;
            let t: Array2<f64> = m.transform(&x);
            Ok(vec![("transform".into(), arr2(&t))])
        })));
    }
    // ---- one-vs-all composition: the order of `one_vs_all()` pairs decides `MultiClassModel` ties
    v.push(("one-vs-all-multiclass-saturated-members".into(), Box::new(|| {
        // member models with saturated probabilities (exactly 1 near their class, exactly 0 far away):
        // what Platt-scaled SVMs return on well separated classes (Pr is an f32)
        struct Near { c: [f64; 2], r: f64 }
        impl PredictInplace<Array2<f64>, Array1<linfa::dataset::Pr>> for Near {
            fn predict_inplace(&self, x: &Array2<f64>, y: &mut Array1<linfa::dataset::Pr>) {
                for (row, t) in x.rows().into_iter().zip(y.iter_mut()) {
                    let d = ((row[0] - self.c[0]).powi(2) + (row[1] - self.c[1]).powi(2)).sqrt();
                    *t = linfa::dataset::Pr::new(if d <= self.r { 1.0 } else { 0.0 });
                }
            }
            fn default_target(&self, x: &Array2<f64>) -> Array1<linfa::dataset::Pr> {
                Array1::from_elem(x.nrows(), linfa::dataset::Pr::new(0.0))
            }
        }
        let centres = [[0.0, 0.0], [4.0, 0.0], [0.0, 4.0], [4.0, 4.0], [2.0, 7.0]];
        let mut rows = vec![];
        let mut y = vec![];
        for (k, c) in centres.iter().enumerate() {
            for j in 0..6 {
                rows.push([c[0] + 0.1 * j as f64, c[1] - 0.1 * j as f64]);
                y.push(100 + 7 * k);
            }
        }
        let x = Array2::from_shape_fn((rows.len(), 2), |(i, j)| rows[i][j]);
        let ds = Dataset::new(x, Array1::from(y));
        let model: linfa::MultiClassModel<Array2<f64>, usize> = ds
            .one_vs_all()
            .map_err(es)?
            .into_iter()
            .map(|(l, view)| {
                // "fit": the member's centre is the mean of its positive samples
                let pos: Vec<usize> = view.targets().as_single_targets().iter().enumerate().filter(|(_, t)| **t).map(|(i, _)| i).collect();
                let mut c = [0.0; 2];
                for i in &pos {
                    c[0] += view.records()[(*i, 0)] / pos.len() as f64;
                    c[1] += view.records()[(*i, 1)] / pos.len() as f64;
                }
                (l, Near { c, r: 2.5 })
            })
            .collect();
        // queries: inside one class, between two / four classes (tied at 1), far from all (tied at 0)
        let q = ndarray::array![[0.1, 0.1], [2.0, 0.0], [2.0, 2.0], [50.0, 50.0], [0.0, 2.0], [3.0, 5.5], [-40.0, 3.0]];
        let p: Array1<usize> = model.predict(&q);
        Ok(vec![("predict".into(), format!("{:?}", p.to_vec()))])
    })));
    v.push(("one-vs-all-svm-platt".into(), Box::new(|| {
        // the documented multi-class recipe: one Platt-scaled SVM per label, merged by MultiClassModel
        let mut rows = vec![];
        let mut y = vec![];
        for (k, c) in [[0.0, 0.0], [30.0, 0.0], [0.0, 30.0], [30.0, 30.0]].iter().enumerate() {
            for j in 0..8 {
                rows.push([c[0] + 0.3 * (j % 3) as f64, c[1] + 0.3 * (j / 3) as f64]);
                y.push(3 * k + 1);
            }
        }
        let x = Array2::from_shape_fn((rows.len(), 2), |(i, j)| rows[i][j]);
        let ds = Dataset::new(x, Array1::from(y));
        let mut members = vec![];
        for (l, view) in ds.one_vs_all().map_err(es)? {
            let m = linfa_svm::Svm::<f64, linfa::dataset::Pr>::params().linear_kernel().pos_neg_weights(1e3, 1e3).fit(&view).map_err(es)?;
            members.push((l, m));
        }
        let model: linfa::MultiClassModel<Array2<f64>, usize> = members.into_iter().collect();
        let q = ndarray::array![[0.2, 0.2], [30.0, 0.3], [15.0, 15.0], [15.0, 0.0], [300.0, 300.0], [-300.0, -300.0], [0.0, 15.0], [29.0, 31.0]];
        let p: Array1<usize> = model.predict(&q);
        Ok(vec![("predict".into(), format!("{:?}", p.to_vec()))])
    })));
    // a large tree fit on columns that tie exactly (a duplicated column, a monotone transform of
    // another): whichever feature wins a tie, it has to be the same one on every run
    v.push(("tree-large-tied-columns".into(), Box::new(move || {
        let n = 4400usize;
        let base = big_blobs(23, n, 2);
        let x = Array2::from_shape_fn((n, 4), |(i, j)| match j {
            0 => base[[i, 0]],
            1 => base[[i, 1]],
            2 => base[[i, 0]],                 // exact duplicate of column 0
            _ => 2.0 * base[[i, 1]] + 1.0,     // monotone image of column 1: identical partitions
        });
        let y = Array1::from_shape_fn(n, |i| ((base[[i, 0]] > 0.0) as usize) + 2 * ((base[[i, 1]] > 0.5) as usize));
        let m = linfa_trees::DecisionTree::params().max_depth(Some(6)).fit(&Dataset::new(x, y)).map_err(es)?;
        let nodes: Vec<String> = m.iter_nodes().map(|nd| { let (f, v, _) = nd.split(); format!("{}:{}:{}", nd.depth(), f, fb(v)) }).collect();
        let p: Array1<usize> = m.predict(&zoo::probe(3, 40, 4, false));
        Ok(vec![("nodes".into(), nodes.join(";")), ("predict".into(), format!("{:?}", p.to_vec())), ("importance".into(), fbs(m.feature_importance().iter()))])
    })));
    v.push(("ftrl-default-seed".into(), Box::new(|| {
        let d = make_data(17, 200, 4, false);
        let ds = Dataset::new(d.x.clone(), d.ybin.clone());
        let m = linfa_ftrl::Ftrl::params().fit_with(None, &ds).map_err(es)?;
        Ok(vec![("weights".into(), fbs(m.get_weights().iter()))])
    })));
    v.push(("dbscan-labels".into(), Box::new(|| {
        let x = big_blobs(18, 300, 2);
        let labels = linfa_clustering::Dbscan::params(4).tolerance(0.6).transform(&x).map_err(es)?;
        Ok(vec![("labels".into(), format!("{:?}", labels.to_vec()))])
    })));
    v.push(("pearson-correlation".into(), Box::new(|| {
        let d = make_data(19, 120, 4, false);
        let ds = Dataset::new(d.x.clone(), d.yreg.clone());
        let c = ds.pearson_correlation();
        Ok(vec![("coefficients".into(), fbs(c.get_coeffs().iter()))])
    })));
    v
}

fn all_det_builders(tier: Tier) -> Vec<(String, DetBuilder)> {
    let mut v: Vec<(String, DetBuilder)> = vec![];
    for (name, b) in ser::all_builders() {
        if name.starts_with("error-") || name.starts_with("dist-") || name.contains("params-invalid") {
            continue;
        }
        v.push((name.clone(), Box::new(move || {
            let s = b(0xC20)?;
            let mut out = s.behaviour()?;
            if s.ordered_image() {
                if let Ok(j) = s.json() {
                    out.push(("serde-image".into(), serde_json::to_string(&j).unwrap_or_default()));
                }
            }
            Ok(out)
        })));
    }
    v.extend(extra_builders(tier));
    v
}

fn hashes(b: &Behaviour) -> BTreeMap<String, String> {
    b.iter().map(|(k, v)| (k.clone(), h(v))).collect()
}

fn schedule_probe() -> String {
    let v: Vec<usize> = (0..256usize).into_par_iter().map(|_| {
        // a little work so that stealing happens
        let mut s = 0u64;
        for i in 0..2000u64 {
            s = s.wrapping_mul(31).wrapping_add(i);
        }
        std::hint::black_box(s);
        rayon::current_thread_index().unwrap_or(99)
    }).collect();
    v.iter().map(|i| char::from(b'a' + (*i as u8 % 26))).collect()
}

struct Noise {
    stop: Arc<AtomicBool>,
    handles: Vec<std::thread::JoinHandle<()>>,
}
impl Noise {
    fn start(n: usize) -> Noise {
        let stop = Arc::new(AtomicBool::new(false));
        let handles = (0..n)
            .map(|_| {
                let s = stop.clone();
                std::thread::spawn(move || {
                    let mut x = 1u64;
                    while !s.load(Ordering::Relaxed) {
                        for _ in 0..10_000 {
                            x = x.wrapping_mul(6364136223846793005).wrapping_add(1);
                        }
                        std::hint::black_box(x);
                        std::thread::yield_now();
                    }
                })
            })
            .collect();
        Noise { stop, handles }
    }
}
impl Drop for Noise {
    fn drop(&mut self) {
        self.stop.store(true, Ordering::Relaxed);
        for h in self.handles.drain(..) {
            let _ = h.join();
        }
    }
}

fn in_pool<T: Send>(threads: usize, f: impl FnOnce() -> T + Send) -> T {
    let pool = rayon::ThreadPoolBuilder::new().num_threads(threads).stack_size(16 << 20).build().unwrap();
    pool.install(f)
}

pub fn child(args: &[String]) -> i32 {
    // vcheck child c20 <tier>
    let tier = if args.get(1).map(|s| s.as_str()) == Some("thorough") { Tier::Thorough } else { Tier::Quick };
    let threads: usize = std::env::var("RAYON_NUM_THREADS").ok().and_then(|s| s.parse().ok()).unwrap_or(4);
    let only: Option<String> = std::env::var("C20_ONLY").ok();
    for (name, b) in all_det_builders(tier) {
        if let Some(o) = &only {
            if &name != o {
                continue;
            }
        }
        let r = in_pool(threads, || guarded(|| b()));
        match r {
            Ok(Ok(beh)) => {
                for (k, v) in hashes(&beh) {
                    println!("D\t{name}\t{k}\t{v}");
                }
            }
            Ok(Err(e)) => println!("E\t{name}\t{}", e.replace(['\t', '\n'], " ")),
            Err(p) => println!("P\t{name}\t{}", p.replace(['\t', '\n'], " ")),
        }
    }
    println!("S\t{}", in_pool(threads, schedule_probe));
    0
}

pub fn run(ctx: &Ctx) {
    // the workload does not draw from the case rng (estimators, seeds and schedules are enumerated):
    // further rounds would repeat it verbatim
    if ctx.round > 0 {
        return;
    }
    ctx.set_rule(
        "every estimator of the zoo and of the serialisable value kinds, plus large parallel k-means / GMM fits, \
         hash-order sensitive cases (tied tree leaves, tied naive-Bayes posteriors, hierarchical label ids, weighted \
         impurity sums) and default-seeded builders: one case = one estimator fitted repeatedly from the same data, \
         parameters and seed (a) in rayon pools of 1,2,3,4,8,16 threads with 0/8/32 competing noise threads, (b) in fresh \
         processes with RAYON_NUM_THREADS in {1,2,5,16}. Non-trivial = at least 3 repetitions compared; distinct = estimator.",
    );
    ctx.assume("k-means||, permutation p-values, FastICA without random_state and t-SNE are outside the claim and not run");
    ctx.assume("outputs indexed by label or vocabulary word are dumped as label->value / word->column maps (serde_json objects in key order)");
    let tier = ctx.tier;
    let builders = all_det_builders(tier);
    let nb = builders.len() as u64;
    let builders = &builders;
    let schedules = std::sync::Mutex::new(BTreeSet::<String>::new());
    let reps = tier.pick(1usize, 3usize);
    let in_proc_digests = std::sync::Mutex::new(BTreeMap::<String, BTreeMap<String, String>>::new());
    // (a) in-process, different pools. Sequential over estimators: the pools under test own the machine.
    ctx.family_seq("in-process-schedules", nb, |c| {
        let (name, b) = &builders[c.idx as usize];
        c.note("estimator", json!(name));
        let reference = match in_pool(1, || guarded(|| b())) {
            Ok(Ok(r)) => r,
            Ok(Err(e)) => return inconclusive(format!("{name}: {e}")),
            Err(p) => return inconclusive(format!("{name}: panicked: {p}")),
        };
        let href = hashes(&reference);
        in_proc_digests.lock().unwrap().insert(name.clone(), href.clone());
        let mut runs = 0;
        for rep in 0..reps {
            for (ti, threads) in [1usize, 2, 3, 4, 8, 16].into_iter().enumerate() {
                let noise = [0usize, 8, 32][(ti + rep) % 3];
                let _noise = Noise::start(noise);
                let (r, sched) = in_pool(threads, || (guarded(|| b()), schedule_probe()));
                schedules.lock().unwrap().insert(format!("{threads}:{sched}"));
                let r = match r {
                    Ok(Ok(r)) => r,
                    Ok(Err(e)) => bail!("C20/rerun/error-after-success", {"estimator": name, "threads": threads, "error": e}),
                    Err(p) => bail!("C20/rerun/panic-after-success", {"estimator": name, "threads": threads, "panic": p}),
                };
                runs += 1;
                let hr = hashes(&r);
                if hr != href {
                    let diff: Vec<&String> = href.keys().filter(|k| hr.get(*k) != href.get(*k)).collect();
                    let k0 = diff.first().map(|s| s.to_string()).unwrap_or_default();
                    let cut = |b: &Behaviour| b.iter().find(|(k, _)| *k == k0).map(|(_, v)| v.chars().take(400).collect::<String>());
                    bail!("C20/in-process/digest-differs",
                        {"estimator": name, "threads": threads, "noise_threads": noise, "observables_differing": diff,
                         "reference_1_thread": cut(&reference), "this_run": cut(&r)});
                }
            }
        }
        c.evals = runs + 1;
        c.note("observables", json!(href.keys().collect::<Vec<_>>()));
        c.note("runs_compared", json!(runs + 1));
        held(runs >= 2, name.clone())
    });
    // (a') the same parameters held by an object with a history (checked / fitted / reconfigured
    // before) and by a freshly built one: "same data, parameters and seed" does not depend on what the
    // parameter object did earlier
    type Pair = Box<dyn Fn() -> Result<(Behaviour, Behaviour), String> + Send + Sync>;
    let hist: Vec<(&str, Pair)> = vec![
        ("count-vectorizer-tokenizer-changed-after-a-fit", Box::new(|| {
            use linfa_preprocessing::{CountVectorizer, Tokenizer};
            let corpus = ndarray::array!["one-two three".to_string(), "two-two four one".to_string(), "four-five".to_string()];
            let dump = |p: &linfa_preprocessing::CountVectorizerParams| -> Result<Behaviour, String> {
                let f = p.fit(&corpus).map_err(es)?;
                let mut voc = f.vocabulary().clone();
                voc.sort();
                Ok(vec![("vocabulary".into(), format!("{voc:?}"))])
            };
            let fresh = CountVectorizer::params().tokenizer(Tokenizer::Regex(r"[a-z]+".to_string()));
            let used = CountVectorizer::params().tokenizer(Tokenizer::Regex(r"[a-z\-]+".to_string()));
            let _ = used.fit(&corpus);
            let used = used.tokenizer(Tokenizer::Regex(r"[a-z]+".to_string()));
            Ok((dump(&fresh)?, dump(&used)?))
        })),
        ("kmeans-params-fitted-twice", Box::new(|| {
            use linfa_clustering::KMeans;
            let ds = DatasetBase::from(big_blobs(31, 500, 2));
            let p = KMeans::params_with_rng(3, rand_xoshiro::Xoshiro256Plus::seed_from_u64(4)).max_n_iterations(8);
            let a = p.fit(&ds).map_err(es)?;
            let b = p.fit(&ds).map_err(es)?;
            let d = |m: &KMeans<f64, linfa_nn::distance::L2Dist>| vec![("centroids".to_string(), arr2(m.centroids())), ("inertia".to_string(), fb(m.inertia()))];
            Ok((d(&a), d(&b)))
        })),
        ("gmm-params-fitted-twice", Box::new(|| {
            use linfa_clustering::GaussianMixtureModel;
            let ds = DatasetBase::from(big_blobs(32, 300, 2));
            let p = GaussianMixtureModel::params_with_rng(2, rand_xoshiro::Xoshiro256Plus::seed_from_u64(4)).max_n_iterations(10);
            let a = p.fit(&ds).map_err(es)?;
            let b = p.fit(&ds).map_err(es)?;
            let d = |m: &GaussianMixtureModel<f64>| vec![("means".to_string(), arr2(m.means())), ("weights".to_string(), fbs(m.weights().iter()))];
            Ok((d(&a), d(&b)))
        })),
        ("tree-params-fitted-on-other-data-first", Box::new(|| {
            let d1 = make_data(33, 80, 3, false);
            let d2 = make_data(34, 120, 3, false);
            let p = linfa_trees::DecisionTree::params().max_depth(Some(4));
            let _ = p.fit(&Dataset::new(d1.x.clone(), d1.ycls.clone())).map_err(es)?;
            let b = p.fit(&Dataset::new(d2.x.clone(), d2.ycls.clone())).map_err(es)?;
            let a = linfa_trees::DecisionTree::params().max_depth(Some(4)).fit(&Dataset::new(d2.x.clone(), d2.ycls.clone())).map_err(es)?;
            let q = zoo::probe(5, 30, 3, false);
            let d = |m: &linfa_trees::DecisionTree<f64, usize>| { let y: Array1<usize> = m.predict(&q); vec![("predict".to_string(), format!("{:?}", y.to_vec())), ("leaves".to_string(), m.num_leaves().to_string())] };
            Ok((d(&a), d(&b)))
        })),
    ];
    let hist = &hist;
    ctx.family_seq("parameter-object-history", hist.len() as u64, |c| {
        let (name, f) = &hist[c.idx as usize];
        c.note("case", json!(name));
        match guarded(|| f()) {
            Ok(Ok((fresh, used))) => {
                ensure!(hashes(&fresh) == hashes(&used), "C20/history/result-depends-on-what-the-parameter-object-did-before",
                    {"case": name, "fresh": fresh.iter().map(|(k, v)| (k.clone(), v.chars().take(300).collect::<String>())).collect::<Vec<_>>(),
                     "with_history": used.iter().map(|(k, v)| (k.clone(), v.chars().take(300).collect::<String>())).collect::<Vec<_>>()});
                held(true, name.to_string())
            }
            Ok(Err(e)) => inconclusive(format!("{name}: {e}")),
            Err(p) => inconclusive(format!("{name}: panicked: {p}")),
        }
    });
    // (b) cross-process
    let nproc = tier.pick(6usize, 40usize);
    let exe = std::env::current_exe().expect("current exe");
    let tname = tier.name().to_string();
    let outputs: Vec<(usize, usize, Result<String, String>)> = if ctx.replay.is_some() {
        vec![]
    } else {
        (0..nproc)
            .collect::<Vec<_>>()
            .par_iter()
            .with_max_len(1)
            .map(|i| {
                let threads = [1usize, 2, 5, 16][i % 4];
                let out = std::process::Command::new(&exe)
                    .args(["child", "c20", &tname])
                    .env("RAYON_NUM_THREADS", threads.to_string())
                    .output();
                match out {
                    Ok(o) if o.status.success() => (*i, threads, Ok(String::from_utf8_lossy(&o.stdout).to_string())),
                    Ok(o) => (*i, threads, Err(format!("child exit {:?}: {}", o.status.code(), String::from_utf8_lossy(&o.stderr).chars().take(300).collect::<String>()))),
                    Err(e) => (*i, threads, Err(format!("spawn failed: {e}"))),
                }
            })
            .collect()
    };
    // estimator -> observable -> hash -> processes
    let mut table: BTreeMap<String, BTreeMap<String, BTreeMap<String, Vec<String>>>> = BTreeMap::new();
    let mut failures: BTreeMap<String, Vec<String>> = BTreeMap::new();
    let mut good_children = 0usize;
    for (i, threads, out) in &outputs {
        match out {
            Ok(text) => {
                good_children += 1;
                for line in text.lines() {
                    let f: Vec<&str> = line.split('\t').collect();
                    match f.as_slice() {
                        ["D", name, obs, hash] => {
                            table.entry(name.to_string()).or_default().entry(obs.to_string()).or_default().entry(hash.to_string()).or_default().push(format!("proc{i}/threads{threads}"));
                        }
                        ["E", name, msg] | ["P", name, msg] => failures.entry(name.to_string()).or_default().push(format!("proc{i}: {msg}")),
                        ["S", sched] => {
                            schedules.lock().unwrap().insert(format!("p{threads}:{sched}"));
                        }
                        _ => {}
                    }
                }
            }
            Err(e) => failures.entry("<child>".into()).or_default().push(e.clone()),
        }
    }
    let digests = in_proc_digests.lock().unwrap();
    if ctx.replay.is_none() {
        for (idx, (name, _)) in builders.iter().enumerate() {
            let mut notes = serde_json::Map::new();
            notes.insert("estimator".into(), json!(name));
            let out = (|| {
                let Some(obs) = table.get(name) else {
                    return inconclusive(format!("{name}: no child produced a digest ({:?})", failures.get(name).map(|v| v.first())));
                };
                let mut nrep = 0;
                for (o, hs) in obs {
                    let mut all: BTreeMap<String, Vec<String>> = hs.clone();
                    if let Some(hr) = digests.get(name).and_then(|m| m.get(o)) {
                        all.entry(hr.clone()).or_default().push("parent/threads1".into());
                    }
                    nrep = nrep.max(all.values().map(|v| v.len()).sum::<usize>());
                    if all.len() > 1 {
                        return violated("C20/cross-process/digest-differs", json!({"estimator": name, "observable": o,
                            "distinct_digests": all.len(), "digests": all.iter().map(|(h, p)| json!({"digest": h, "seen_in": p})).collect::<Vec<_>>()}));
                    }
                }
                notes.insert("processes_compared".into(), json!(nrep));
                held(nrep >= 3, name.clone())
            })();
            ctx.record_external("cross-process", idx as u64, notes, out);
        }
    }
    let sched = schedules.lock().unwrap();
    ctx.extra("distinct_chunk_to_worker_maps_observed", json!(sched.len()));
    ctx.extra("child_processes", json!({"spawned": nproc, "succeeded": good_children}));
    ctx.extra("estimators", json!(builders.iter().map(|(n, _)| n.clone()).collect::<Vec<_>>()));
    if !failures.is_empty() {
        ctx.extra("child_failures", json!(failures));
    }
    ctx.add_counter("schedule-probe-distinct-maps", sched.len() as u64);
    // Miri lane (thorough): 3-thread k-means under the data-race detector, 8 scheduler seeds
    miri_lane(ctx, "c20", 8);
}
