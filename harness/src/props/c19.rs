//! C19 — serialised models and parameters deserialise to behaviourally identical values.
//!
//! For every value that offers (de)serialisation: round trip through bincode (lossless) and JSON
//! (lossless for finite floats); the restored value must compare equal (where PartialEq exists),
//! expose the same learned state (JSON image with maps in key order), and behave bit-identically
//! on fixed inputs (predictions, transforms, validation verdicts, refits). A second round trip must
//! be a fixed point.
use crate::fw::*;
use crate::ser::{self, SerSubject};
use ndarray::Array1;
use rand::Rng as _;
use serde_json::json;

fn first_diff(a: &ser::Behaviour, b: &ser::Behaviour) -> Option<serde_json::Value> {
    if a.len() != b.len() {
        return Some(json!({"why": "different number of observables", "a": a.len(), "b": b.len()}));
    }
    for ((ka, va), (kb, vb)) in a.iter().zip(b.iter()) {
        if ka != kb || va != vb {
            let cut = |s: &String| s.chars().take(300).collect::<String>();
            return Some(json!({"observable": ka, "original": cut(va), "restored": cut(vb)}));
        }
    }
    None
}

fn check_one(c: &mut Case, name: &str, subject: &dyn SerSubject) -> Outcome {
    let orig_json = match subject.json() {
        Ok(j) => j,
        Err(e) => return inconclusive(format!("{name}: value does not serialise to JSON: {e}")),
    };
    let orig_b = match subject.behaviour() {
        Ok(b) => b,
        Err(e) if e.starts_with("linfa_panic:") => bail!("C19/behaviour/original-panics", {"value": name, "panic": e}),
        Err(e) => return inconclusive(format!("{name}: behaviour of the original not observable: {e}")),
    };
    let json_text = serde_json::to_string(&orig_json).unwrap_or_default();
    let has_null = json_text.contains("null");
    let mut formats = 0;
    for fmt in ["bincode", "json", "json-pretty"] {
        let restored = match guarded(|| subject.roundtrip(fmt)) {
            Err(p) => bail!("C19/roundtrip/panic", {"value": name, "format": fmt, "panic": p}),
            Ok(Err(e)) => {
                if fmt != "bincode" && has_null {
                    // non-finite floats / None: JSON is not lossless for them
                    c.count("json-not-lossless-skipped");
                    continue;
                }
                bail!("C19/roundtrip/error", {"value": name, "format": fmt, "error": e});
            }
            Ok(Ok(r)) => r,
        };
        formats += 1;
        if let Some(eq) = restored.same_as(subject) {
            c.count("partial-eq-checked");
            ensure!(eq, "C19/equality/restored-differs", {"value": name, "format": fmt});
        }
        let rj = match restored.json() {
            Ok(j) => j,
            Err(e) => bail!("C19/learned-state/restored-not-serialisable", {"value": name, "format": fmt, "error": e}),
        };
        if subject.ordered_image() && rj != orig_json {
            let a = serde_json::to_string(&orig_json).unwrap_or_default();
            let b = serde_json::to_string(&rj).unwrap_or_default();
            let pos = a.bytes().zip(b.bytes()).position(|(x, y)| x != y).unwrap_or(a.len().min(b.len()));
            let lo = pos.saturating_sub(80);
            bail!("C19/learned-state/differs", {"value": name, "format": fmt,
                "original": a.chars().skip(lo).take(200).collect::<String>(),
                "restored": b.chars().skip(lo).take(200).collect::<String>()});
        }
        match restored.behaviour() {
            Ok(rb) => {
                if let Some(d) = first_diff(&orig_b, &rb) {
                    bail!("C19/behaviour/differs", {"value": name, "format": fmt, "diff": d});
                }
            }
            Err(e) => bail!("C19/behaviour/restored-fails", {"value": name, "format": fmt, "error": e}),
        }
        // second round trip is a fixed point
        match guarded(|| restored.roundtrip(fmt)) {
            Ok(Ok(r2)) => {
                let ok = (!subject.ordered_image() || r2.json().ok().as_ref() == Some(&orig_json))
                    && r2.behaviour().ok().map(|b| first_diff(&orig_b, &b).is_none()).unwrap_or(false);
                ensure!(ok, "C19/roundtrip/not-a-fixed-point", {"value": name, "format": fmt});
            }
            Ok(Err(e)) => bail!("C19/roundtrip/second-trip-error", {"value": name, "format": fmt, "error": e}),
            Err(p) => bail!("C19/roundtrip/panic", {"value": name, "format": fmt, "panic": p}),
        }
    }
    c.evals = formats * 2;
    c.note("value", json!(name));
    c.note("observables", json!(orig_b.iter().map(|(k, v)| format!("{k} ({} chars)", v.len())).collect::<Vec<_>>()));
    c.note("json_bytes", json!(json_text.len()));
    if formats == 0 {
        return inconclusive("no format applicable");
    }
    held(true, format!("{name}/{}", c.idx))
}

/// deliberately unlike the default split expression: splits on blanks only, so "cat;fox" is one
/// token and one-letter words are kept (the default regex would give "cat", "fox" and drop "a")
fn tok(s: &str) -> Vec<&str> {
    s.split(' ').filter(|t| !t.is_empty()).collect()
}

/// CountVectorizer with a function tokenizer: the documented guard
fn check_function_tokenizer(c: &mut Case) -> Outcome {
    use linfa_preprocessing::{CountVectorizer, Tokenizer};
    let docs: Vec<String> = {
        let words = ["fox", "dog", "cat;fox", "Dog", "bird", "ant", "a", "x-y"];
        let n = c.rng.gen_range(2..7);
        (0..n).map(|_| (0..c.rng.gen_range(1..7)).map(|_| words[c.rng.gen_range(0..words.len())]).collect::<Vec<_>>().join(" ")).collect()
    };
    let arr = Array1::from(docs.clone());
    let fitted = match CountVectorizer::params().tokenizer(Tokenizer::Function(tok)).fit(&arr) {
        Ok(m) => m,
        Err(e) => return inconclusive(format!("fit error: {e}")),
    };
    let canon = |m: &CountVectorizer| -> Result<String, String> {
        let t = m.transform(&arr).map_err(|e| format!("{e:?}"))?.to_dense();
        let mut cells: Vec<String> = m.vocabulary().iter().enumerate().map(|(j, w)| format!("{w}={:?}", t.column(j).to_vec())).collect();
        cells.sort();
        Ok(cells.join(";"))
    };
    let before = match canon(&fitted) {
        Ok(s) => s,
        Err(e) => return inconclusive(format!("original transform failed: {e}")),
    };
    for fmt in ["bincode", "json"] {
        let restored: Result<CountVectorizer, String> = if fmt == "bincode" {
            bincode::serialize(&fitted).map_err(|e| format!("{e}")).and_then(|b| bincode::deserialize(&b).map_err(|e| format!("{e}")))
        } else {
            serde_json::to_string(&fitted).map_err(|e| format!("{e}")).and_then(|s| serde_json::from_str(&s).map_err(|e| format!("{e}")))
        };
        let mut restored = match restored {
            Ok(r) => r,
            Err(e) => bail!("C19/roundtrip/error", {"value": "count-vectorizer-function-tokenizer", "format": fmt, "error": e}),
        };
        // documented: transform reports TokenizerNotSet until the function is redefined
        match guarded(|| canon(&restored)) {
            Err(p) => bail!("C19/tokenizer-guard/panic", {"format": fmt, "panic": p}),
            Ok(Ok(s)) => bail!("C19/tokenizer-guard/transform-answered-without-tokenizer", {"format": fmt, "result": s.chars().take(200).collect::<String>()}),
            Ok(Err(e)) => {
                ensure!(e.contains("TokenizerNotSet"), "C19/tokenizer-guard/wrong-error", {"format": fmt, "error": e});
            }
        }
        restored.force_tokenizer_function_redefinition(tok);
        match canon(&restored) {
            Ok(after) => ensure!(after == before, "C19/behaviour/differs", {"value": "count-vectorizer-function-tokenizer", "format": fmt,
                "original": before.chars().take(300).collect::<String>(), "restored": after.chars().take(300).collect::<String>()}),
            Err(e) => bail!("C19/behaviour/restored-fails", {"value": "count-vectorizer-function-tokenizer", "format": fmt, "error": e}),
        }
        // second generation: the repaired copy is again a value with a function tokenizer, so a copy
        // of it must again refuse to transform until the function is redefined -- and agree afterwards
        let second: Result<CountVectorizer, String> = if fmt == "bincode" {
            bincode::serialize(&restored).map_err(|e| format!("{e}")).and_then(|b| bincode::deserialize(&b).map_err(|e| format!("{e}")))
        } else {
            serde_json::to_string(&restored).map_err(|e| format!("{e}")).and_then(|s| serde_json::from_str(&s).map_err(|e| format!("{e}")))
        };
        let mut second = match second {
            Ok(r) => r,
            Err(e) => bail!("C19/roundtrip/second-trip-error", {"value": "count-vectorizer-function-tokenizer", "format": fmt, "error": e}),
        };
        match guarded(|| canon(&second)) {
            Err(p) => bail!("C19/tokenizer-guard/panic", {"format": fmt, "generation": 2, "panic": p}),
            Ok(Ok(s2)) => {
                // answering is only acceptable if the answer is the original's
                ensure!(s2 == before, "C19/tokenizer-guard/second-generation-copy-answers-with-another-tokenizer",
                    {"format": fmt, "original": before.chars().take(300).collect::<String>(), "second_generation": s2.chars().take(300).collect::<String>()});
            }
            Ok(Err(e)) => ensure!(e.contains("TokenizerNotSet"), "C19/tokenizer-guard/wrong-error", {"format": fmt, "generation": 2, "error": e}),
        }
        second.force_tokenizer_function_redefinition(tok);
        match canon(&second) {
            Ok(after) => ensure!(after == before, "C19/behaviour/differs", {"value": "count-vectorizer-function-tokenizer (second generation)", "format": fmt}),
            Err(e) => bail!("C19/behaviour/restored-fails", {"value": "count-vectorizer-function-tokenizer (second generation)", "format": fmt, "error": e}),
        }
    }
    c.note("docs", json!(docs));
    held(true, format!("function-tokenizer/{}", c.idx))
}

pub fn run(ctx: &Ctx) {
    ctx.set_rule(
        "every value kind offering serde (fitted models of the zoo, parameter sets valid and invalid, scalers, whiteners, \
         vectorisers, OPTICS results, neighbour selectors, metrics, kernel methods, errors) x instance seeds x {bincode, JSON, \
         pretty JSON}; one case = one value through all formats, twice. Non-trivial = at least one format applied; distinct = \
         (value kind, seed).",
    );
    ctx.assume("learned state is compared through serde_json::Value (maps in key order) and behaviour through bit patterns; JSON is skipped for values whose image contains null (non-finite floats / None are not lossless in JSON)");
    ctx.assume("Kernel/KernelView carry a serde derive whose bound no type satisfies: they offer no serialisation and are not monitored");
    let builders = ser::all_builders();
    let nb = builders.len() as u64;
    let seeds = ctx.tier.pick(18u64, 72u64);
    let builders = &builders;
    ctx.family("round-trip", nb * seeds, |c| {
        let (name, build) = &builders[(c.idx % nb) as usize];
        // value kinds built from a small enumerated space (hostile parameter values, variants) get
        // the instance number, so that the space is covered completely; the others a random seed
        let seed: u64 = if name.contains("hostile") || name.contains("variants") || name.starts_with("error-") { c.idx / nb } else { c.rng.gen() };
        let subject = match guarded(|| build(seed)) {
            Ok(Ok(s)) => s,
            Ok(Err(e)) => return inconclusive(format!("{name}: {e}")),
            Err(p) => return inconclusive(format!("{name}: building panicked: {p}")),
        };
        check_one(c, name, subject.as_ref())
    });
    ctx.family("function-tokenizer-guard", ctx.tier.pick(30, 300), check_function_tokenizer);
    ctx.extra("value_kinds", json!(builders.iter().map(|(n, _)| n.clone()).collect::<Vec<_>>()));
}
