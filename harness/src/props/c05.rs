//! C05 — every evaluation metric equals its definition recomputed from first principles.
//!
//! Oracles are written from the property text (all in f64, compensated sums), never from linfa's
//! code. Observation is at the public API only; confusion-matrix cells are private and are read
//! through the public `Debug` rendering of `ConfusionMatrix`.
//!
//! Families are split by aspect so that one defect cannot mask another one:
//!   cm-exhaustive, cm-random, cm-receivers, cm-one-vs-one,
//!   roc-exhaustive, roc-random, logloss-exhaustive, logloss-random,
//!   regression-basic, regression-r2, regression-explained-variance, regression-multi,
//!   silhouette-exhaustive, silhouette-random, pearson.
use crate::fw::*;
use crate::gen;
use linfa::dataset::{CountedTargets, DatasetBase, Label, Pr};
use linfa::metrics::{
    BinaryClassification, ConfusionMatrix, MultiTargetRegression, SilhouetteScore,
    SingleTargetRegression, ToConfusionMatrix,
};
use linfa::Float;
use ndarray::{s, Array1, Array2, ShapeBuilder};
use rand::Rng as _;
use serde_json::{json, Value};

type Chk = Result<(), Outcome>;

macro_rules! fail {
    ($sig:expr, $($j:tt)+) => {
        return Err(violated($sig, json!($($j)+)))
    };
}
macro_rules! need {
    ($c:expr, $sig:expr, $($j:tt)+) => {
        if !($c) {
            fail!($sig, $($j)+)
        }
    };
}

const E32: f64 = f32::EPSILON as f64;

/// Neumaier compensated sum: the oracle's own rounding error is negligible against the floors.
fn ksum<I: IntoIterator<Item = f64>>(it: I) -> f64 {
    let mut s = 0.0f64;
    let mut comp = 0.0f64;
    for x in it {
        let t = s + x;
        if s.abs() >= x.abs() {
            comp += (s - t) + x;
        } else {
            comp += (x - t) + s;
        }
        s = t;
    }
    s + comp
}

fn fj(v: f64) -> Value {
    if v.is_finite() {
        json!(v)
    } else {
        json!(format!("{v}"))
    }
}
fn fjv(v: &[f64]) -> Value {
    Value::Array(v.iter().map(|x| fj(*x)).collect())
}

/// compare a finite expectation with an observed value under an absolute threshold; records the
/// ratio residual/threshold under `name` (clean tree: << 1, threshold at 1).
fn close(c: &mut Case, name: &str, got: f64, exp: f64, tol: f64) -> bool {
    if !got.is_finite() || !exp.is_finite() {
        c.resid(name, f64::INFINITY);
        return false;
    }
    let r = (got - exp).abs();
    let ratio = if r == 0.0 { 0.0 } else { r / tol.max(f64::MIN_POSITIVE) };
    c.resid(name, ratio);
    ratio <= 1.0
}

fn small_hash(xs: &[f64]) -> u64 {
    let mut h = 0xcbf29ce484222325u64;
    for x in xs {
        h ^= x.to_bits();
        h = h.wrapping_mul(0x100000001b3);
    }
    h & 0xffff_ffff
}

// =====================================================================================
// classification: confusion matrix and everything derived from it
// =====================================================================================

trait Lab: Label + std::fmt::Display + Send + Sync + 'static {}
impl<T: Label + std::fmt::Display + Send + Sync + 'static> Lab for T {}

struct ParsedCm {
    members: Vec<String>,
    cells: Vec<Vec<f64>>,
}

/// read members and cells from the public Debug rendering of a ConfusionMatrix
fn parse_cm(s: &str) -> Result<ParsedCm, String> {
    let lines: Vec<&str> = s.split('\n').filter(|l| !l.trim().is_empty()).collect();
    if lines.is_empty() || !lines[0].starts_with("classes") {
        return Err(format!("no header in {s:?}"));
    }
    let members: Vec<String> = lines[0]
        .split(" | ")
        .skip(1)
        .map(|x| x.trim().to_string())
        .collect();
    let k = members.len();
    if lines.len() != k + 1 {
        return Err(format!("{} rows for {} members in {s:?}", lines.len() - 1, k));
    }
    let mut cells = vec![];
    for (i, l) in lines[1..].iter().enumerate() {
        let parts: Vec<&str> = l.split(" | ").collect();
        if parts.len() != k + 1 {
            return Err(format!("row {i} has {} cells for {k} members", parts.len() - 1));
        }
        if parts[0].trim() != members[i] {
            return Err(format!(
                "row {i} is labelled {:?}, column {i} is labelled {:?}",
                parts[0].trim(),
                members[i]
            ));
        }
        let mut row = vec![];
        for p in &parts[1..] {
            match p.trim().parse::<f64>() {
                Ok(v) => row.push(v),
                Err(_) => return Err(format!("cell {p:?} is not a number")),
            }
        }
        cells.push(row);
    }
    Ok(ParsedCm { members, cells })
}

/// Expected members and cells from the definition: sorted union of both label sets (reversed
/// when there are exactly two), cell (i,j) = #{t : pred[t] = m_i and truth[t] = m_j}.
struct LabelOracle<L> {
    members: Vec<L>,
    cells: Vec<Vec<u64>>,
    n: usize,
}

impl<L: Ord + Clone> LabelOracle<L> {
    fn new(pred: &[L], truth: &[L]) -> Self {
        let mut m: Vec<L> = pred.iter().chain(truth.iter()).cloned().collect();
        m.sort();
        m.dedup();
        if m.len() == 2 {
            m.reverse();
        }
        let k = m.len();
        let mut cells = vec![vec![0u64; k]; k];
        for (i, mi) in m.iter().enumerate() {
            for (j, mj) in m.iter().enumerate() {
                cells[i][j] = pred
                    .iter()
                    .zip(truth.iter())
                    .filter(|(p, t)| *p == mi && *t == mj)
                    .count() as u64;
            }
        }
        LabelOracle {
            members: m,
            cells,
            n: pred.len(),
        }
    }
    fn cells_f(&self) -> Vec<Vec<f64>> {
        self.cells
            .iter()
            .map(|r| r.iter().map(|v| *v as f64).collect())
            .collect()
    }
}

/// the documented scores; None = the documented formula divides by zero (undefined)
#[derive(Debug, Clone)]
struct Derived {
    acc: Option<f64>,
    prec: Option<f64>,
    rec: Option<f64>,
    mcc: Option<f64>,
}

fn ratio(a: f64, b: f64) -> Option<f64> {
    if b == 0.0 {
        None
    } else {
        Some(a / b)
    }
}

fn fbeta(p: Option<f64>, r: Option<f64>, beta: f64) -> Option<f64> {
    let (p, r) = (p?, r?);
    let sb = beta * beta;
    ratio((1.0 + sb) * p * r, sb * p + r)
}

/// Scores of a label-vector pair from the documentation of `ConfusionMatrix`:
/// accuracy = fraction of equal labels; precision(l) = correct classifications of l divided by
/// the total number of items in class l; recall(l) = correct classifications of l divided by the
/// number of classifications as l; binary matrices report the first member, all others the
/// macro average; MCC = (c s - sum p_k t_k) / sqrt((s^2 - sum p_k^2)(s^2 - sum t_k^2)).
fn derived_from_labels<L: Ord + Clone>(pred: &[L], truth: &[L], members: &[L]) -> Derived {
    let n = pred.len() as f64;
    let equal = pred.iter().zip(truth).filter(|(p, t)| p == t).count() as f64;
    let per = |l: &L| {
        let tp = pred.iter().zip(truth).filter(|(p, t)| *p == l && *t == l).count() as f64;
        let np = pred.iter().filter(|p| *p == l).count() as f64;
        let nt = truth.iter().filter(|t| *t == l).count() as f64;
        (tp, np, nt)
    };
    let (prec, rec) = if members.len() == 2 {
        let (tp, np, nt) = per(&members[0]);
        (ratio(tp, nt), ratio(tp, np))
    } else {
        let mut ps = Some(0.0);
        let mut rs = Some(0.0);
        for l in members {
            let (tp, np, nt) = per(l);
            ps = match (ps, ratio(tp, nt)) {
                (Some(a), Some(b)) => Some(a + b),
                _ => None,
            };
            rs = match (rs, ratio(tp, np)) {
                (Some(a), Some(b)) => Some(a + b),
                _ => None,
            };
        }
        let k = members.len() as f64;
        (ps.and_then(|x| ratio(x, k)), rs.and_then(|x| ratio(x, k)))
    };
    let mut spt = 0.0;
    let mut spp = 0.0;
    let mut stt = 0.0;
    for l in members {
        let (_, np, nt) = per(l);
        spt += np * nt;
        spp += np * np;
        stt += nt * nt;
    }
    let den = (n * n - spp) * (n * n - stt);
    let mcc = if den > 0.0 {
        Some((equal * n - spt) / den.sqrt())
    } else {
        None
    };
    Derived {
        acc: ratio(equal, n),
        prec,
        rec,
        mcc,
    }
}

/// documented scores of a 2x2 matrix [[a,b],[c,d]] (first label = positive class)
fn derived_from_binary_cells(a: f64, b: f64, c: f64, d: f64) -> Derived {
    let den = (a + b) * (c + d) * (a + c) * (b + d);
    Derived {
        acc: ratio(a + d, a + b + c + d),
        prec: ratio(a, a + c),
        rec: ratio(a, a + b),
        mcc: if den > 0.0 {
            Some((a * d - b * c) / den.sqrt())
        } else {
            None
        },
    }
}

const BETAS: [f32; 3] = [0.5, 2.0, 3.0];

fn check_derived<A>(
    c: &mut Case,
    cm: &ConfusionMatrix<A>,
    d: &Derived,
    on: &str,
    ctxj: &dyn Fn() -> Value,
) -> Chk {
    let one = |c: &mut Case, name: &str, got: f32, exp: Option<f64>| -> Chk {
        match exp {
            None => {
                c.count("undefined-score-accepted");
                Ok(())
            }
            Some(e) => {
                let tol = 256.0 * E32 * e.abs().max(1.0);
                if !close(c, "cm-score/threshold-ratio", got as f64, e, tol) {
                    fail!(format!("C05/{name}/value"),
                        {"on": on, "case": ctxj(), "got": fj(got as f64), "expected": e});
                }
                Ok(())
            }
        }
    };
    one(c, "accuracy", cm.accuracy(), d.acc)?;
    one(c, "precision", cm.precision(), d.prec)?;
    one(c, "recall", cm.recall(), d.rec)?;
    one(c, "mcc", cm.mcc(), d.mcc)?;
    one(c, "f_score", cm.f1_score(), fbeta(d.prec, d.rec, 1.0))?;
    for b in BETAS {
        one(c, "f_score", cm.f_score(b), fbeta(d.prec, d.rec, b as f64))?;
    }
    Ok(())
}

fn cells_equal(a: &[Vec<f64>], b: &[Vec<f64>]) -> bool {
    a.len() == b.len() && a.iter().zip(b).all(|(x, y)| x == y)
}
fn transposed(a: &[Vec<f64>]) -> Vec<Vec<f64>> {
    let k = a.len();
    (0..k).map(|i| (0..k).map(|j| a[j][i]).collect()).collect()
}

/// how the public API is entered
const CM_VARIANTS: [&str; 11] = [
    "array.cm(&array)",
    "view.cm(view)",
    "array.cm(&dataset)",
    "dataset.cm(&dataset)",
    "dataset.cm(&array)",
    "strided-view.cm(&strided-view)",
    "counted-targets.cm(&array)",
    "reversed-view.cm(&reversed-view)",
    "reversed-view.cm(&array)",
    "array.cm(&owned-array-with-negative-stride)",
    "strided-view.cm(&reversed-view)",
];

fn build_cm<L: Lab>(
    pred: &[L],
    truth: &[L],
    variant: usize,
) -> Result<Result<ConfusionMatrix<L>, String>, String> {
    let n = pred.len();
    let p = Array1::from(pred.to_vec());
    let t = Array1::from(truth.to_vec());
    let rec = Array2::<f64>::zeros((if variant >= 2 { n } else { 0 }, 1));
    let r = guarded(|| match variant {
        0 => p.confusion_matrix(&t),
        1 => p.view().confusion_matrix(t.view()),
        2 => p.confusion_matrix(&DatasetBase::new(rec.clone(), t.clone())),
        3 => DatasetBase::new(rec.clone(), p.clone())
            .confusion_matrix(&DatasetBase::new(rec.clone(), t.clone())),
        4 => DatasetBase::new(rec.clone(), p.clone()).confusion_matrix(&t),
        5 => {
            // every second element of a twice as long buffer
            let filler = pred[0].clone();
            let pb = Array1::from_shape_fn(2 * n, |i| if i % 2 == 0 { pred[i / 2].clone() } else { filler.clone() });
            let tb = Array1::from_shape_fn(2 * n, |i| if i % 2 == 0 { truth[i / 2].clone() } else { filler.clone() });
            pb.slice(s![..;2]).confusion_matrix(tb.slice(s![..;2]))
        }
        6 => CountedTargets::new(p.clone()).confusion_matrix(&t),
        7 => {
            let pb = Array1::from_shape_fn(n, |i| pred[n - 1 - i].clone());
            let tb = Array1::from_shape_fn(n, |i| truth[n - 1 - i].clone());
            pb.slice(s![..;-1]).confusion_matrix(tb.slice(s![..;-1]))
        }
        // only one of the two vectors walks its buffer backwards
        8 => {
            let pb = Array1::from_shape_fn(n, |i| pred[n - 1 - i].clone());
            pb.slice(s![..;-1]).confusion_matrix(&t)
        }
        9 => {
            // `to_owned` of a reversed view keeps the negative stride
            let tb = Array1::from_shape_fn(n, |i| truth[n - 1 - i].clone());
            let towned = tb.slice(s![..;-1]).to_owned();
            p.confusion_matrix(&towned)
        }
        _ => {
            let filler = pred[0].clone();
            let pb = Array1::from_shape_fn(2 * n, |i| if i % 2 == 0 { pred[i / 2].clone() } else { filler.clone() });
            let tb = Array1::from_shape_fn(n, |i| truth[n - 1 - i].clone());
            pb.slice(s![..;2]).confusion_matrix(tb.slice(s![..;-1]))
        }
    });
    r.map(|x| x.map_err(|e| format!("{e}")))
}

fn labels_json<L: std::fmt::Debug>(v: &[L]) -> Value {
    json!(v.iter().map(|x| format!("{x:?}")).collect::<Vec<_>>())
}

/// cells + members + documented scores + one-vs-all of one (pred, truth) pair
fn check_cm<L: Lab>(c: &mut Case, pred: &[L], truth: &[L], variant: usize, scores: bool) -> Chk {
    let ctxf = || json!({"pred": labels_json(pred), "truth": labels_json(truth), "api": CM_VARIANTS[variant]});
    let cm = match build_cm(pred, truth, variant) {
        Err(p) => {
            let sig = if variant == 5 || variant >= 7 {
                "C05/confusion_matrix/panic-noncontiguous"
            } else {
                "C05/confusion_matrix/panic"
            };
            fail!(sig, {"case": ctxf(), "panic": p});
        }
        Ok(Err(e)) => fail!("C05/confusion_matrix/spurious-error", {"case": ctxf(), "err": e}),
        Ok(Ok(cm)) => cm,
    };
    let o = LabelOracle::new(pred, truth);
    let parsed = match parse_cm(&format!("{cm:?}")) {
        Ok(p) => p,
        Err(e) => fail!("C05/confusion_matrix/malformed", {"case": ctxf(), "why": e}),
    };
    let exp_members: Vec<String> = o.members.iter().map(|m| format!("{m}").trim().to_string()).collect();
    need!(parsed.members == exp_members, "C05/confusion_matrix/members",
        {"case": ctxf(), "got": parsed.members, "expected": exp_members});
    let exp_cells = o.cells_f();
    if !cells_equal(&parsed.cells, &exp_cells) {
        let sig = if cells_equal(&parsed.cells, &transposed(&exp_cells)) {
            "C05/confusion_matrix/transposed"
        } else {
            "C05/confusion_matrix/cells"
        };
        fail!(sig, {"case": ctxf(), "members": exp_members, "got": parsed.cells, "expected": exp_cells});
    }
    let total: f64 = parsed.cells.iter().flatten().sum();
    need!(total == o.n as f64, "C05/confusion_matrix/cell-sum", {"case": ctxf(), "sum": total, "n": o.n});
    if !scores {
        return Ok(());
    }
    let d = derived_from_labels(pred, truth, &o.members);
    check_derived(c, &cm, &d, "matrix", &ctxf)?;
    // one-vs-all: for member l the 2x2 matrix of the indicator vectors (pred = l, truth = l)
    let ova = cm.split_one_vs_all();
    need!(ova.len() == o.members.len(), "C05/split_one_vs_all/count",
        {"case": ctxf(), "got": ova.len(), "expected": o.members.len()});
    for (i, l) in o.members.iter().enumerate() {
        let cnt = |pp: bool, tt: bool| {
            pred.iter().zip(truth).filter(|(p, t)| (*p == l) == pp && (*t == l) == tt).count() as f64
        };
        let exp = vec![vec![cnt(true, true), cnt(true, false)], vec![cnt(false, true), cnt(false, false)]];
        let got = match parse_cm(&format!("{:?}", ova[i])) {
            Ok(p) => p,
            Err(e) => fail!("C05/split_one_vs_all/malformed", {"case": ctxf(), "why": e}),
        };
        need!(got.members == ["true", "false"] && cells_equal(&got.cells, &exp),
            "C05/split_one_vs_all/cells",
            {"case": ctxf(), "member": format!("{l:?}"), "got_members": got.members, "got": got.cells, "expected": exp});
        let db = derived_from_binary_cells(exp[0][0], exp[0][1], exp[1][0], exp[1][1]);
        check_derived(c, &ova[i], &db, "one-vs-all split", &ctxf)?;
    }
    Ok(())
}

fn canon2(m: [f64; 4]) -> [u64; 4] {
    // a one-vs-one matrix of the pair {i,j} may name either label "true": [[a,b],[c,d]] ~ [[d,c],[b,a]]
    let a = [m[0] as u64, m[1] as u64, m[2] as u64, m[3] as u64];
    let b = [m[3] as u64, m[2] as u64, m[1] as u64, m[0] as u64];
    a.min(b)
}

/// one-vs-one: N(N-1)/2 matrices, one per unordered pair {i,j}, holding the cells
/// [[C_ii, C_ij], [C_ji, C_jj]]; order of the pairs / orientation are not documented (multiset).
fn check_ovo<L: Lab>(c: &mut Case, pred: &[L], truth: &[L]) -> Chk {
    let ctxf = || json!({"pred": labels_json(pred), "truth": labels_json(truth)});
    let cm = match build_cm(pred, truth, 0) {
        Ok(Ok(cm)) => cm,
        other => fail!("C05/confusion_matrix/spurious-error", {"case": ctxf(), "got": format!("{:?}", other.map(|x| x.map(|_| "cm")))}),
    };
    let o = LabelOracle::new(pred, truth);
    let k = o.members.len();
    let ovo = match guarded(|| cm.split_one_vs_one()) {
        Ok(v) => v,
        Err(p) => fail!("C05/split_one_vs_one/panic", {"case": ctxf(), "panic": p}),
    };
    let mut got: Vec<[f64; 4]> = vec![];
    for m in &ovo {
        match parse_cm(&format!("{m:?}")) {
            Ok(p) if p.cells.len() == 2 && p.members == ["true", "false"] => {
                got.push([p.cells[0][0], p.cells[0][1], p.cells[1][0], p.cells[1][1]])
            }
            _ => fail!("C05/split_one_vs_one/malformed", {"case": ctxf(), "matrix": format!("{m:?}")}),
        }
    }
    let cf = o.cells_f();
    let mut exp: Vec<[f64; 4]> = vec![];
    for i in 0..k {
        for j in (i + 1)..k {
            exp.push([cf[i][i], cf[i][j], cf[j][i], cf[j][j]]);
        }
    }
    let mut ge: Vec<[u64; 4]> = got.iter().map(|m| canon2(*m)).collect();
    let mut ee: Vec<[u64; 4]> = exp.iter().map(|m| canon2(*m)).collect();
    ge.sort();
    ee.sort();
    if got.len() != exp.len() {
        // discriminate the one known way of getting the count wrong: every label also paired with itself
        let mut with_self = ee.clone();
        for i in 0..k {
            with_self.push(canon2([cf[i][i]; 4]));
        }
        with_self.sort();
        let sig = if ge == with_self {
            "C05/split_one_vs_one/includes-self-pairs"
        } else {
            "C05/split_one_vs_one/count"
        };
        fail!(sig, {"case": ctxf(), "labels": k, "got_count": got.len(), "documented_count": k * k.saturating_sub(1) / 2, "got": got});
    }
    need!(ge == ee, "C05/split_one_vs_one/cells", {"case": ctxf(), "got": got, "expected": exp});
    c.count_n("one-vs-one-matrices", exp.len() as u64);
    // every pairwise part is a confusion matrix of its own: its scores and its one-vs-all split
    // follow from its own four cells
    for (m, cells) in ovo.iter().zip(got.iter()) {
        let db = derived_from_binary_cells(cells[0], cells[1], cells[2], cells[3]);
        check_derived(c, m, &db, "one-vs-one part", &ctxf)?;
        let parts = match guarded(|| m.split_one_vs_all()) {
            Ok(p) => p,
            Err(p) => fail!("C05/split_one_vs_all/panic", {"case": ctxf(), "of": "one-vs-one part", "panic": p}),
        };
        need!(parts.len() == 2, "C05/split_one_vs_all/count", {"case": ctxf(), "of": "one-vs-one part", "got": parts.len(), "expected": 2});
        // for a 2x2 matrix [[a,b],[c,d]] the two indicator matrices are [[a,b],[c,d]] and [[d,c],[b,a]]
        let want = [[cells[0], cells[1], cells[2], cells[3]], [cells[3], cells[2], cells[1], cells[0]]];
        for (part, w) in parts.iter().zip(want.iter()) {
            match parse_cm(&format!("{part:?}")) {
                Ok(p) if p.cells.len() == 2 => {
                    let g = [p.cells[0][0], p.cells[0][1], p.cells[1][0], p.cells[1][1]];
                    need!(&g == w, "C05/split_one_vs_all/cells", {"case": ctxf(), "of": "one-vs-one part", "got": g, "expected": w});
                }
                _ => fail!("C05/split_one_vs_all/malformed", {"case": ctxf(), "of": "one-vs-one part"}),
            }
            let dd = derived_from_binary_cells(w[0], w[1], w[2], w[3]);
            check_derived(c, part, &dd, "one-vs-all split of a one-vs-one part", &ctxf)?;
        }
    }
    Ok(())
}

fn digits(mut code: usize, n: usize, base: usize) -> Vec<usize> {
    let mut v = vec![0; n];
    for d in v.iter_mut() {
        *d = code % base;
        code /= base;
    }
    v
}

const USIZE_MAP: [usize; 3] = [5, 0, usize::MAX];
const STR_MAP: [&str; 3] = ["b", "", "Zed x"];
const BOOL_MAP: [bool; 2] = [true, false];

fn ipow(b: usize, e: usize) -> usize {
    (0..e).fold(1, |a, _| a * b)
}

// =====================================================================================
// binary classification: ROC / AUC / log-loss
// =====================================================================================

const ROC_VARIANTS: [&str; 5] = ["slice", "array", "dataset", "strided-view", "dataset of strided views"];

/// Mann-Whitney: P(score+ > score-) + 1/2 P(score+ = score-)
fn mann_whitney(s: &[f32], y: &[bool]) -> Option<f64> {
    let pos: Vec<f32> = s.iter().zip(y).filter(|(_, b)| **b).map(|(a, _)| *a).collect();
    let neg: Vec<f32> = s.iter().zip(y).filter(|(_, b)| !**b).map(|(a, _)| *a).collect();
    if pos.is_empty() || neg.is_empty() {
        return None;
    }
    let mut twice = 0u64;
    for p in &pos {
        for q in &neg {
            if p > q {
                twice += 2;
            } else if p == q {
                twice += 1;
            }
        }
    }
    Some(twice as f64 / 2.0 / (pos.len() as f64 * neg.len() as f64))
}

/// mean clipped negative log-likelihood; the clip is the f32 machine epsilon (linfa's convention)
fn log_loss_oracle(s: &[f32], y: &[bool]) -> (f64, f64) {
    let lo = f32::EPSILON as f64;
    let hi = (1.0f32 - f32::EPSILON) as f64;
    let terms: Vec<f64> = s
        .iter()
        .zip(y)
        .map(|(p, b)| {
            let p = (*p as f64).clamp(lo, hi);
            if *b {
                -p.ln()
            } else {
                -(1.0 - p).ln()
            }
        })
        .collect();
    let n = s.len() as f64;
    (ksum(terms.iter().cloned()) / n, n)
}

type RocOut = (Vec<(f32, f32)>, Vec<f32>, f32);

fn run_roc(s: &[f32], y: &[bool], variant: usize) -> Result<Result<RocOut, String>, String> {
    let prs: Vec<Pr> = s.iter().map(|v| Pr::new(*v)).collect();
    let n = s.len();
    let r = guarded(|| match variant {
        0 => prs.as_slice().roc(y),
        1 => Array1::from(prs.clone()).roc(y),
        2 => {
            let rec = Array2::<f64>::zeros((n, 1));
            DatasetBase::new(rec.clone(), Array1::from(prs.clone()))
                .roc(&DatasetBase::new(rec, Array1::from(y.to_vec())))
        }
        3 => {
            let buf = Array1::from_shape_fn(2 * n, |i| if i % 2 == 0 { prs[i / 2] } else { Pr::new(0.25) });
            buf.slice(s![..;2]).roc(y)
        }
        _ => {
            let rec = Array2::<f64>::zeros((n, 1));
            let buf = Array1::from_shape_fn(2 * n, |i| if i % 2 == 0 { prs[i / 2] } else { Pr::new(0.25) });
            let yb = Array1::from_shape_fn(3 * n, |i| if i % 3 == 1 { y[i / 3] } else { i % 2 == 0 });
            DatasetBase::new(rec.view(), buf.slice(s![..;2]))
                .roc(&DatasetBase::new(rec.view(), yb.slice(s![1..;3])))
        }
    });
    r.map(|x| {
        x.map(|roc| (roc.get_curve(), roc.get_thresholds(), roc.area_under_curve()))
            .map_err(|e| format!("{e}"))
    })
}

fn run_log_loss(s: &[f32], y: &[bool], variant: usize) -> Result<Result<f32, String>, String> {
    let prs: Vec<Pr> = s.iter().map(|v| Pr::new(*v)).collect();
    let n = s.len();
    let r = guarded(|| match variant {
        0 => prs.as_slice().log_loss(y),
        1 => Array1::from(prs.clone()).log_loss(y),
        2 => {
            let rec = Array2::<f64>::zeros((n, 1));
            DatasetBase::new(rec.clone(), Array1::from(prs.clone()))
                .log_loss(&DatasetBase::new(rec, Array1::from(y.to_vec())))
        }
        3 => {
            let buf = Array1::from_shape_fn(2 * n, |i| if i % 2 == 0 { prs[i / 2] } else { Pr::new(0.25) });
            buf.slice(s![..;2]).log_loss(y)
        }
        _ => {
            let rec = Array2::<f64>::zeros((n, 1));
            let buf = Array1::from_shape_fn(2 * n, |i| if i % 2 == 0 { prs[i / 2] } else { Pr::new(0.25) });
            let yb = Array1::from_shape_fn(3 * n, |i| if i % 3 == 1 { y[i / 3] } else { i % 2 == 0 });
            DatasetBase::new(rec.view(), buf.slice(s![..;2]))
                .log_loss(&DatasetBase::new(rec.view(), yb.slice(s![1..;3])))
        }
    });
    r.map(|x| x.map_err(|e| format!("{e}")))
}

fn roc_ctx(s: &[f32], y: &[bool], variant: usize) -> Value {
    if s.len() <= 24 {
        json!({"scores": s, "labels": y, "api": ROC_VARIANTS[variant]})
    } else {
        json!({"n": s.len(), "scores_head": &s[..24], "labels_head": &y[..24], "api": ROC_VARIANTS[variant]})
    }
}

/// returns the AUC linfa reported
fn check_roc(c: &mut Case, s: &[f32], y: &[bool], variant: usize) -> Result<f64, Outcome> {
    let ctxf = || roc_ctx(s, y, variant);
    let exp = match mann_whitney(s, y) {
        Some(e) => e,
        None => return Err(inconclusive("one class only")),
    };
    let (curve, _thr, auc) = match run_roc(s, y, variant) {
        Err(p) => {
            let sig = if variant >= 3 { "C05/roc/panic-noncontiguous" } else { "C05/roc/panic" };
            fail!(sig, {"case": ctxf(), "panic": p});
        }
        Ok(Err(e)) => fail!("C05/roc/spurious-error", {"case": ctxf(), "err": e}),
        Ok(Ok(r)) => r,
    };
    need!(!curve.is_empty() && curve.iter().all(|(a, b)| a.is_finite() && b.is_finite()),
        "C05/roc/curve-not-finite", {"case": ctxf(), "curve": format!("{curve:?}")});
    need!(curve[0] == (0.0, 0.0), "C05/roc/curve-start",
        {"case": ctxf(), "first_point": [curve[0].0, curve[0].1], "auc": fj(auc as f64), "mann_whitney": exp});
    let last = curve[curve.len() - 1];
    need!(last == (1.0, 1.0), "C05/roc/curve-end", {"case": ctxf(), "last_point": [last.0, last.1]});
    for w in curve.windows(2) {
        need!(w[1].0 >= w[0].0 && w[1].1 >= w[0].1, "C05/roc/curve-not-monotone",
            {"case": ctxf(), "curve": format!("{curve:?}")});
    }
    let tol = 16.0 * (curve.len() as f64 + 16.0) * E32;
    if !close(c, "auc/threshold-ratio", auc as f64, exp, tol) {
        fail!("C05/roc/auc", {"case": ctxf(), "got": fj(auc as f64), "mann_whitney": exp, "curve_points": curve.len()});
    }
    Ok(auc as f64)
}

fn check_log_loss(c: &mut Case, s: &[f32], y: &[bool], variant: usize) -> Result<f64, Outcome> {
    let ctxf = || roc_ctx(s, y, variant);
    let (exp, n) = log_loss_oracle(s, y);
    let got = match run_log_loss(s, y, variant) {
        Err(p) => {
            let sig = if variant >= 3 { "C05/log_loss/panic-noncontiguous" } else { "C05/log_loss/panic" };
            fail!(sig, {"case": ctxf(), "panic": p});
        }
        Ok(Err(e)) => fail!("C05/log_loss/spurious-error", {"case": ctxf(), "err": e}),
        Ok(Ok(v)) => v as f64,
    };
    let tol = 16.0 * (n + 16.0) * E32 * (1.0 + exp);
    if !close(c, "log-loss/threshold-ratio", got, exp, tol) {
        fail!("C05/log_loss/value", {"case": ctxf(), "got": fj(got), "expected": exp});
    }
    Ok(got)
}

/// random scores on the grid k / 2^19: equal or >= 1.9e-6 apart, exactly representable in f32
fn gen_scores(rng: &mut Rng, n: usize) -> (Vec<f32>, Vec<bool>, String) {
    let kind = rng.gen_range(0..7);
    let levels: u32 = match kind {
        0 => 1 << 19,
        1 => rng.gen_range(2..6),
        2 => rng.gen_range(6..40),
        3 => 1 << 19,
        _ => 1 << 10,
    };
    let mut s: Vec<f32> = (0..n)
        .map(|_| {
            let k = rng.gen_range(0..=levels);
            (k as f64 / levels as f64) as f32
        })
        .collect();
    if kind == 3 {
        // squeezed against a boundary with the smallest generated gaps
        let hi = rng.gen_bool(0.5);
        for v in s.iter_mut() {
            let k = rng.gen_range(0..6u32) as f32 / (1u32 << 19) as f32;
            *v = if hi { 1.0 - k } else { k };
        }
    }
    if kind >= 5 {
        // saturated probabilities: neighbouring f32 values just below 1 (5.96e-8 apart) or tiny
        // multiples of 1e-8 next to 0 - distinct scores, all further apart than 1e-10
        let hi = kind == 5;
        for v in s.iter_mut() {
            let k = rng.gen_range(0..7u32);
            *v = if hi { 1.0 - k as f32 * f32::EPSILON / 2.0 } else { k as f32 * 1e-8 };
        }
    }
    // boundary scores (a negative zero is a valid probability equal to 0)
    for v in s.iter_mut() {
        let u: f64 = rng.gen();
        if u < 0.06 {
            *v = 0.0;
        } else if u < 0.08 {
            *v = -0.0;
        } else if u < 0.16 {
            *v = 1.0;
        }
    }
    let informative = rng.gen_bool(0.5);
    let mut y: Vec<bool> = s
        .iter()
        .map(|v| {
            if informative {
                rng.gen::<f32>() < 0.15 + 0.7 * *v
            } else {
                rng.gen_bool(0.5)
            }
        })
        .collect();
    if y.iter().all(|b| *b) {
        y[0] = false;
    }
    if y.iter().all(|b| !*b) {
        y[n - 1] = true;
    }
    (s, y, format!("kind{kind}"))
}

// =====================================================================================
// regression scores
// =====================================================================================

fn to64<F: Float>(v: &[F]) -> Vec<f64> {
    v.iter().map(|x| x.to_f64().unwrap()).collect()
}
fn eps_of<F: Float>() -> f64 {
    F::epsilon().to_f64().unwrap()
}

/// textbook values of the scores for prediction `p` (the receiver) against truth `y`
#[derive(Debug, Clone)]
struct RegOracle {
    n: f64,
    max: f64,
    mae: f64,
    mse: f64,
    /// None when some 1 + x <= 0
    msle: Option<(f64, f64, f64)>, // value, mean |delta log|, max |log|
    median: f64,
    /// None when the receiver contains a zero
    mape: Option<f64>,
    sse: f64,
    sst: f64,
    mean_err: f64,
    mean_abs_err: f64,
    max_abs_y: f64,
}

fn reg_oracle(p: &[f64], y: &[f64]) -> RegOracle {
    let n = p.len() as f64;
    let d: Vec<f64> = p.iter().zip(y).map(|(a, b)| a - b).collect();
    let mut abs: Vec<f64> = d.iter().map(|x| x.abs()).collect();
    let max = abs.iter().cloned().fold(f64::NEG_INFINITY, f64::max);
    let mae = ksum(abs.iter().cloned()) / n;
    let sse = ksum(d.iter().map(|x| x * x));
    let msle = if p.iter().chain(y).all(|x| 1.0 + x > 0.0) {
        let dl: Vec<f64> = p.iter().zip(y).map(|(a, b)| a.ln_1p() - b.ln_1p()).collect();
        let lmax = p.iter().chain(y).map(|x| x.ln_1p().abs()).fold(0.0, f64::max);
        Some((
            ksum(dl.iter().map(|x| x * x)) / n,
            ksum(dl.iter().map(|x| x.abs())) / n,
            lmax,
        ))
    } else {
        None
    };
    abs.sort_by(|a, b| a.partial_cmp(b).unwrap());
    let m = abs.len();
    let median = if m % 2 == 1 { abs[m / 2] } else { (abs[m / 2 - 1] + abs[m / 2]) / 2.0 };
    let mape = if p.iter().all(|x| *x != 0.0) {
        Some(ksum(p.iter().zip(y).map(|(a, b)| ((a - b) / a).abs())) / n)
    } else {
        None
    };
    let ybar = ksum(y.iter().cloned()) / n;
    let sst = ksum(y.iter().map(|v| (v - ybar) * (v - ybar)));
    RegOracle {
        n,
        max,
        mae,
        mse: sse / n,
        msle,
        median,
        mape,
        sse,
        sst,
        mean_err: ksum(d.iter().cloned()) / n,
        mean_abs_err: mae,
        max_abs_y: y.iter().map(|v| v.abs()).fold(0.0, f64::max),
    }
}

impl RegOracle {
    /// relative error of a sum of n non-negative terms computed in F
    fn sum_rel(&self, eps: f64) -> f64 {
        16.0 * (self.n + 16.0) * eps
    }
    /// relative error that an F-computed mean of the truth induces in SST (worst case summation)
    fn kappa(&self, eps: f64) -> f64 {
        let delta = self.n * eps * self.max_abs_y;
        4.0 * self.n * delta * delta / self.sst
    }
    fn r2(&self) -> f64 {
        1.0 - self.sse / self.sst
    }
    fn r2_tol(&self, eps: f64) -> f64 {
        (self.sse / self.sst) * (8.0 * self.sum_rel(eps) + self.kappa(eps)) + 32.0 * eps
    }
    /// 1 - Var(y - p) / Var(y)
    fn ev(&self) -> f64 {
        1.0 - (self.sse - self.n * self.mean_err * self.mean_err) / self.sst
    }
    fn ev_tol(&self, eps: f64) -> f64 {
        let dme = self.n * eps * self.mean_abs_err;
        let me2 = self.n * self.mean_err * self.mean_err;
        let num_err = self.sum_rel(eps) * (self.sse + me2)
            + 2.0 * self.n * self.mean_err.abs() * dme
            + self.n * dme * dme;
        let num = (self.sse - me2).abs();
        num_err / self.sst + num / self.sst * (self.sum_rel(eps) + self.kappa(eps)) + 8.0 * eps
    }
    /// the value the unchanged tree computes: mean error subtracted instead of n * mean error^2;
    /// `guard` = 1e-10 added to the denominator or not
    fn ev_defect(&self, guard: f64) -> f64 {
        1.0 - (self.sse - self.mean_err) / (self.sst + guard)
    }
    fn ev_defect_tol(&self, eps: f64) -> f64 {
        let num_err = self.sum_rel(eps) * (self.sse + self.mean_err.abs()) + self.n * eps * self.mean_abs_err;
        let num = (self.sse - self.mean_err).abs();
        num_err / self.sst + num / self.sst * (self.sum_rel(eps) + self.kappa(eps)) + 8.0 * eps
    }
}

#[derive(Debug, Clone, Default)]
struct RegGot {
    max: f64,
    mae: f64,
    mse: f64,
    msle: f64,
    median: f64,
    mape: f64,
    r2: f64,
    ev: f64,
}

const REG_VARIANTS: [&str; 6] = [
    "array.m(&array)",
    "view.m(&view)",
    "strided-view.m(&strided-view)",
    "dataset.m(&array)",
    "array.m(&dataset)",
    "dataset.m(&dataset)",
];

macro_rules! single_metrics {
    ($p:expr, $t:expr) => {{
        let p = $p;
        let t = $t;
        (|| -> Result<RegGot, linfa::Error> {
            Ok(RegGot {
                max: SingleTargetRegression::max_error(&p, t)?.to_f64().unwrap(),
                mae: SingleTargetRegression::mean_absolute_error(&p, t)?.to_f64().unwrap(),
                mse: SingleTargetRegression::mean_squared_error(&p, t)?.to_f64().unwrap(),
                msle: SingleTargetRegression::mean_squared_log_error(&p, t)?.to_f64().unwrap(),
                median: SingleTargetRegression::median_absolute_error(&p, t)?.to_f64().unwrap(),
                mape: SingleTargetRegression::mean_absolute_percentage_error(&p, t)?.to_f64().unwrap(),
                r2: SingleTargetRegression::r2(&p, t)?.to_f64().unwrap(),
                ev: SingleTargetRegression::explained_variance(&p, t)?.to_f64().unwrap(),
            })
        })()
    }};
}

fn run_single<F: Float>(p: &[F], y: &[F], variant: usize) -> Result<Result<RegGot, String>, String> {
    let n = p.len();
    let pa = Array1::from(p.to_vec());
    let ya = Array1::from(y.to_vec());
    let rec = Array2::<F>::zeros((n, 1));
    let r = guarded(|| match variant {
        0 => single_metrics!(pa.clone(), &ya),
        1 => single_metrics!(pa.view(), &ya.view()),
        2 => {
            let pb = Array2::from_shape_fn((n, 3), |(i, j)| if j == 1 { p[i] } else { F::cast(7.5) });
            let yb = Array2::from_shape_fn((n, 2), |(i, j)| if j == 0 { y[i] } else { F::cast(-3.0) });
            single_metrics!(pb.column(1), &yb.column(0))
        }
        3 => single_metrics!(DatasetBase::new(rec.clone(), pa.clone()), &ya),
        4 => single_metrics!(pa.clone(), &DatasetBase::new(rec.clone(), ya.clone())),
        _ => single_metrics!(
            DatasetBase::new(rec.clone(), pa.clone()),
            &DatasetBase::new(rec.clone(), ya.clone())
        ),
    });
    r.map(|x| x.map_err(|e| format!("{e}")))
}

fn reg_ctx(p: &[f64], y: &[f64], ty: &str, api: &str) -> Value {
    if p.len() <= 16 {
        json!({"type": ty, "api": api, "prediction": fjv(p), "truth": fjv(y)})
    } else {
        json!({"type": ty, "api": api, "n": p.len(), "prediction_head": fjv(&p[..16]), "truth_head": fjv(&y[..16])})
    }
}

/// max / mean / median absolute error, MSE, MSLE, MAPE of one column
fn check_basic(c: &mut Case, g: &RegGot, o: &RegOracle, eps: f64, ctxj: &Value) -> Chk {
    let sr = o.sum_rel(eps);
    let tiny = f64::MIN_POSITIVE / eps;
    if !close(c, "max_error/threshold-ratio", g.max, o.max, 128.0 * eps * o.max + tiny) {
        fail!("C05/max_error/value", {"case": ctxj, "got": fj(g.max), "expected": o.max});
    }
    if !close(c, "median_absolute_error/threshold-ratio", g.median, o.median, 128.0 * eps * o.median + tiny) {
        fail!("C05/median_absolute_error/value", {"case": ctxj, "got": fj(g.median), "expected": o.median});
    }
    if !close(c, "mean_absolute_error/threshold-ratio", g.mae, o.mae, sr * o.mae + tiny) {
        fail!("C05/mean_absolute_error/value", {"case": ctxj, "got": fj(g.mae), "expected": o.mae});
    }
    if !close(c, "mean_squared_error/threshold-ratio", g.mse, o.mse, sr * o.mse + tiny) {
        fail!("C05/mean_squared_error/value", {"case": ctxj, "got": fj(g.mse), "expected": o.mse});
    }
    match o.mape {
        Some(e) => {
            if !close(c, "mape/threshold-ratio", g.mape, e, sr * e + tiny) {
                fail!("C05/mean_absolute_percentage_error/value", {"case": ctxj, "got": fj(g.mape), "expected": e});
            }
        }
        None => c.count("mape-undefined-zero-in-receiver"),
    }
    match o.msle {
        Some((e, mean_dl, lmax)) => {
            // each logarithm carries an absolute error <= 4 eps (1 + |log|) (rounding of 1 + x)
            let el = 4.0 * eps * (1.0 + lmax);
            let tol = 64.0 * (mean_dl * el + el * el) + sr * e;
            if !close(c, "msle/threshold-ratio", g.msle, e, tol) {
                fail!("C05/mean_squared_log_error/value", {"case": ctxj, "got": fj(g.msle), "expected": e});
            }
        }
        None => c.count("msle-undefined-log-of-nonpositive"),
    }
    Ok(())
}

fn check_r2(c: &mut Case, g: &RegGot, o: &RegOracle, eps: f64, ctxj: &Value) -> Chk {
    let tol = o.r2_tol(eps);
    if !close(c, "r2/threshold-ratio", g.r2, o.r2(), tol) {
        // discriminating predicate: the value is the one obtained with 1e-10 added to SST
        let guarded_v = 1.0 - o.sse / (o.sst + 1e-10);
        let sig = if g.r2.is_finite() && (g.r2 - guarded_v).abs() <= tol {
            "C05/r2/absolute-denominator-guard"
        } else {
            "C05/r2/value"
        };
        fail!(sig, {"case": ctxj, "got": fj(g.r2), "textbook": o.r2(), "with_1e-10_added_to_sst": guarded_v, "sst": o.sst, "threshold": tol});
    }
    Ok(())
}

/// explained variance: held / known defect (discriminated) / any other deviation
fn check_ev(c: &mut Case, g: &RegGot, o: &RegOracle, eps: f64, ctxj: &Value) -> Chk {
    let tol = 4.0 * o.ev_tol(eps);
    if g.ev.is_finite() && (g.ev - o.ev()).abs() <= tol {
        close(c, "explained_variance/threshold-ratio", g.ev, o.ev(), tol);
        return Ok(());
    }
    let (d0, d1) = (o.ev_defect(0.0), o.ev_defect(1e-10));
    let dt = 8.0 * o.ev_defect_tol(eps);
    // the defective numerator over SST, or over SST + 1e-10 (trees without the denominator repair)
    if g.ev.is_finite() && ((g.ev - d0).abs() <= dt || (g.ev - d1).abs() <= dt) {
        c.resid(
            "explained_variance-known-defect/threshold-ratio",
            ((g.ev - d0).abs().min((g.ev - d1).abs())) / dt,
        );
        fail!("C05/explained_variance/mean-error-not-squared",
            {"case": ctxj, "got": fj(g.ev), "textbook_1_minus_var_ratio": o.ev(),
             "value_of_1-(sse-mean_err)/sst": d0, "sse": o.sse, "sst": o.sst, "mean_err": o.mean_err});
    }
    fail!("C05/explained_variance/value",
        {"case": ctxj, "got": fj(g.ev), "textbook": o.ev(), "threshold": tol, "known_defect_value": d0});
}

/// generated (prediction, truth) pair in F; truth non-constant
fn gen_reg<F: Float>(rng: &mut Rng, n: usize, log_domain: bool) -> (Vec<F>, Vec<F>, String) {
    let wide = eps_of::<F>() < 1e-10;
    let scale = if log_domain {
        gen::log_uniform(rng, 1e-3, 1e3)
    } else if wide {
        gen::log_uniform(rng, 1e-6, 1e6)
    } else {
        gen::log_uniform(rng, 1e-4, 1e4)
    };
    let okind = if log_domain { 0 } else { rng.gen_range(0..5) };
    let offset = match okind {
        0 | 1 => 0.0,
        2 => *gen::pick(rng, &[1e3, -1e3]),
        _ => {
            let m = gen::log_uniform(rng, 1.0, if wide { 1e6 } else { 1e3 });
            scale * m * if rng.gen_bool(0.5) { 1.0 } else { -1.0 }
        }
    };
    let lattice = rng.gen_bool(0.3);
    let mut y: Vec<f64> = (0..n)
        .map(|_| {
            let z = if lattice { rng.gen_range(-3..=3) as f64 } else { gen::normal(rng) };
            if log_domain {
                // values in (-1, inf): some between -1 and 0
                if lattice { (z + 3.0) * scale - 0.5 } else { (z * 0.8).exp() * scale - 0.9 }
            } else {
                offset + scale * z
            }
        })
        .collect();
    if y.iter().all(|v| *v == y[0]) {
        y[0] += scale;
    }
    let pkind = rng.gen_range(0..8);
    let eta = *gen::pick(rng, &[1e-3, 0.1, 1.0, 10.0]);
    let p: Vec<f64> = match pkind {
        0 | 1 => y.iter().map(|v| v + scale * eta * gen::normal(rng)).collect(),
        2 => {
            let sh = scale * eta * (1.0 + rng.gen::<f64>());
            y.iter().map(|v| v + sh).collect()
        }
        3 => (0..n).map(|_| offset + scale * gen::normal(rng)).collect(),
        4 => y.iter().map(|v| if rng.gen_bool(0.5) { *v } else { v + scale * rng.gen_range(-2..=2) as f64 }).collect(),
        5 => {
            let m = y.iter().sum::<f64>() / n as f64;
            y.iter().map(|_| m).collect()
        }
        6 => y.iter().map(|v| 2.0 * offset - v).collect(),
        _ => y.iter().map(|v| v + scale * eta * (1.0 + gen::normal(rng))).collect(),
    };
    let p: Vec<f64> = if log_domain { p.iter().map(|v| v.max(-0.95)).collect() } else { p };
    let pf: Vec<F> = p.iter().map(|v| F::cast(*v)).collect();
    let yf: Vec<F> = y.iter().map(|v| F::cast(*v)).collect();
    (
        pf,
        yf,
        format!("scale=1e{:.0} off={okind} lat={lattice} pk={pkind} log={log_domain}", scale.log10()),
    )
}

fn permute<T: Clone>(v: &[T], perm: &[usize]) -> Vec<T> {
    perm.iter().map(|i| v[*i].clone()).collect()
}

/// one single-target case in F: returns (got, oracle) or the reason it is not decidable
fn single_case<F: Float>(
    c: &mut Case,
    aspect: &str,
    log_domain: bool,
) -> Result<(RegGot, RegGot, RegOracle, f64, Value, String), Outcome> {
    let ty = if eps_of::<F>() < 1e-10 { "f64" } else { "f32" };
    let n = match c.rng.gen_range(0..4) {
        0 => c.rng.gen_range(2..6),
        1 => c.rng.gen_range(2..30),
        _ => c.rng.gen_range(2..c.tier.pick(300, 1500)),
    };
    let (p, y, desc) = gen_reg::<F>(&mut c.rng, n, log_domain);
    let variant = c.rng.gen_range(0..REG_VARIANTS.len());
    let (p64, y64) = (to64(&p), to64(&y));
    if y64.iter().all(|v| *v == y64[0]) || p64.iter().chain(&y64).any(|v| !v.is_finite()) {
        return Err(inconclusive("truth constant after rounding to F"));
    }
    let o = reg_oracle(&p64, &y64);
    let ctxj = reg_ctx(&p64, &y64, ty, REG_VARIANTS[variant]);
    c.note("n", json!(n));
    c.note("type", json!(ty));
    c.note("api", json!(REG_VARIANTS[variant]));
    c.note("gen", json!(desc));
    let g = match run_single(&p, &y, variant) {
        Err(pm) => fail!(format!("C05/{aspect}/panic"), {"case": ctxj, "panic": pm}),
        Ok(Err(e)) => fail!(format!("C05/{aspect}/spurious-error"), {"case": ctxj, "err": e}),
        Ok(Ok(g)) => g,
    };
    // the same permutation applied to both vectors
    let perm = gen::permutation(&mut c.rng, n);
    let gp = match run_single(&permute(&p, &perm), &permute(&y, &perm), variant) {
        Ok(Ok(g)) => g,
        other => fail!(format!("C05/{aspect}/permutation"), {"case": ctxj, "permuted_call": format!("{other:?}")}),
    };
    let key = format!("{ty} n={n} v={variant} {desc} h={:x}", small_hash(&p64) ^ small_hash(&y64).rotate_left(7));
    Ok((g, gp, o, eps_of::<F>(), ctxj, key))
}

// ------------------------------------------------------------------ multi-target

const MULTI_VARIANTS: [&str; 6] = [
    "array2.m(&array2)",
    "f-order array2.m(&array2)",
    "view2.m(&view2)",
    "strided-view2.m(&strided-view2)",
    "dataset.m(&array2)",
    "array2.m(&dataset)",
];

macro_rules! multi_metrics {
    ($p:expr, $t:expr) => {{
        let p = $p;
        let t = $t;
        (|| -> Result<Vec<Vec<f64>>, linfa::Error> {
            let cv = |a: Array1<_>| -> Vec<f64> { a.iter().map(|x: &F| x.to_f64().unwrap()).collect() };
            Ok(vec![
                cv(MultiTargetRegression::max_error(&p, t)?),
                cv(MultiTargetRegression::mean_absolute_error(&p, t)?),
                cv(MultiTargetRegression::mean_squared_error(&p, t)?),
                cv(MultiTargetRegression::mean_squared_log_error(&p, t)?),
                cv(MultiTargetRegression::median_absolute_error(&p, t)?),
                cv(MultiTargetRegression::mean_absolute_percentage_error(&p, t)?),
                cv(MultiTargetRegression::r2(&p, t)?),
                cv(MultiTargetRegression::explained_variance(&p, t)?),
            ])
        })()
    }};
}

/// columns of p / y -> per metric, per column values
fn run_multi<F: Float>(p: &[Vec<F>], y: &[Vec<F>], variant: usize) -> Result<Result<Vec<Vec<f64>>, String>, String> {
    let t = p.len();
    let n = p[0].len();
    let pa = Array2::from_shape_fn((n, t), |(i, j)| p[j][i]);
    let ya = Array2::from_shape_fn((n, t), |(i, j)| y[j][i]);
    let rec = Array2::<F>::zeros((n, 2));
    let r = guarded(|| match variant {
        0 => multi_metrics!(pa.clone(), &ya),
        1 => {
            let mut pf = Array2::<F>::zeros((n, t).f());
            pf.assign(&pa);
            let mut yf = Array2::<F>::zeros((n, t).f());
            yf.assign(&ya);
            multi_metrics!(pf, &yf)
        }
        2 => multi_metrics!(pa.view(), &ya.view()),
        3 => {
            let pb = Array2::from_shape_fn((2 * n, t + 2), |(i, j)| {
                if i % 2 == 0 && j >= 1 && j <= t { p[j - 1][i / 2] } else { F::cast(11.0) }
            });
            let yb = Array2::from_shape_fn((n, 2 * t), |(i, j)| if j % 2 == 1 { y[j / 2][i] } else { F::cast(-2.0) });
            multi_metrics!(pb.slice(s![..;2, 1..=t]), &yb.slice(s![.., 1..;2]))
        }
        4 => multi_metrics!(DatasetBase::new(rec.clone(), pa.clone()), &ya),
        _ => multi_metrics!(pa.clone(), &DatasetBase::new(rec.clone(), ya.clone())),
    });
    r.map(|x| x.map_err(|e| format!("{e}")))
}

// =====================================================================================
// silhouette
// =====================================================================================

/// textbook silhouette (Rousseeuw): a(i) mean distance to the other members of the own cluster,
/// b(i) smallest mean distance to another cluster, s = (b - a) / max(a, b), score = mean s
fn silhouette_oracle(x: &[Vec<f64>], lab: &[usize]) -> Option<f64> {
    let n = x.len();
    let mut ids: Vec<usize> = lab.to_vec();
    ids.sort();
    ids.dedup();
    if ids.len() < 2 {
        return None;
    }
    let dist = |i: usize, j: usize| -> f64 {
        ksum(x[i].iter().zip(&x[j]).map(|(a, b)| (a - b) * (a - b))).sqrt()
    };
    let mut ss = vec![];
    for i in 0..n {
        let mut a = 0.0;
        let mut b = f64::INFINITY;
        for l in &ids {
            let members: Vec<usize> = (0..n).filter(|j| lab[*j] == *l && *j != i).collect();
            if members.is_empty() {
                return None;
            }
            let m = ksum(members.iter().map(|j| dist(i, *j))) / members.len() as f64;
            if *l == lab[i] {
                a = m;
            } else if m < b {
                b = m;
            }
        }
        let den = a.max(b);
        if !(den > 0.0) {
            return None;
        }
        ss.push((b - a) / den);
    }
    Some(ksum(ss) / n as f64)
}

/// every cluster holds at least two distinct points
fn clusters_in_domain(x: &[Vec<f64>], lab: &[usize]) -> bool {
    let mut ids: Vec<usize> = lab.to_vec();
    ids.sort();
    ids.dedup();
    ids.len() >= 2
        && ids.iter().all(|l| {
            let m: Vec<&Vec<f64>> = x.iter().zip(lab).filter(|(_, k)| *k == l).map(|(p, _)| p).collect();
            m.len() >= 2 && m.iter().any(|p| *p != m[0])
        })
}

const SIL_VARIANTS: [&str; 5] = ["usize labels", "f-order records", "String labels", "counted targets", "dataset view"];

fn run_silhouette<F: Float>(x: &[Vec<F>], lab: &[usize], variant: usize) -> Result<Result<f64, String>, String> {
    let n = x.len();
    let d = x[0].len();
    let rec = Array2::from_shape_fn((n, d), |(i, j)| x[i][j]);
    let labels = Array1::from(lab.to_vec());
    let r = guarded(|| match variant {
        0 => DatasetBase::new(rec.clone(), labels.clone()).silhouette_score(),
        1 => {
            let mut rf = Array2::<F>::zeros((n, d).f());
            rf.assign(&rec);
            DatasetBase::new(rf, labels.clone()).silhouette_score()
        }
        2 => {
            let sl = labels.mapv(|l| format!("c{}", l % 7) + &"x".repeat(l % 3) + &l.to_string());
            DatasetBase::new(rec.clone(), sl).silhouette_score()
        }
        3 => DatasetBase::new(rec.clone(), CountedTargets::new(labels.clone())).silhouette_score(),
        _ => DatasetBase::new(rec.view(), labels.view()).silhouette_score(),
    });
    r.map(|x| x.map(|v| v.to_f64().unwrap()).map_err(|e| format!("{e}")))
}

fn check_silhouette<F: Float>(c: &mut Case, x: &[Vec<F>], lab: &[usize], variant: usize) -> Result<f64, Outcome> {
    let x64: Vec<Vec<f64>> = x.iter().map(|r| to64(r)).collect();
    let n = x.len();
    let d = x[0].len();
    let ty = if eps_of::<F>() < 1e-10 { "f64" } else { "f32" };
    let ctxj = if n <= 12 {
        json!({"type": ty, "api": SIL_VARIANTS[variant], "points": x64, "labels": lab})
    } else {
        json!({"type": ty, "api": SIL_VARIANTS[variant], "n": n, "d": d, "labels_head": &lab[..12], "points_head": &x64[..4]})
    };
    if !clusters_in_domain(&x64, lab) {
        return Err(inconclusive("a cluster without two distinct points"));
    }
    let exp = match silhouette_oracle(&x64, lab) {
        Some(e) => e,
        None => return Err(inconclusive("silhouette undefined")),
    };
    let got = match run_silhouette(x, lab, variant) {
        Err(p) => fail!("C05/silhouette/panic", {"case": ctxj, "panic": p}),
        Ok(Err(e)) => fail!("C05/silhouette/spurious-error", {"case": ctxj, "err": e}),
        Ok(Ok(v)) => v,
    };
    let tol = 8.0 * (n as f64 + d as f64 + 16.0) * eps_of::<F>();
    if !close(c, "silhouette/threshold-ratio", got, exp, tol) {
        fail!("C05/silhouette/value", {"case": ctxj, "got": fj(got), "expected": exp});
    }
    Ok(got)
}

// =====================================================================================
// Pearson correlation coefficients
// =====================================================================================

const PEARSON_VARIANTS: [&str; 4] = ["owned", "f-order", "view of wider matrix", "with p-values"];

fn run_pearson<F: Float>(cols: &[Vec<F>], variant: usize) -> Result<Vec<f64>, String> {
    let p = cols.len();
    let n = cols[0].len();
    let a = Array2::from_shape_fn((n, p), |(i, j)| cols[j][i]);
    guarded(|| {
        let v: Array1<F> = match variant {
            0 => DatasetBase::from(a.clone()).pearson_correlation().get_coeffs().clone(),
            1 => {
                let mut af = Array2::<F>::zeros((n, p).f());
                af.assign(&a);
                DatasetBase::from(af).pearson_correlation().get_coeffs().clone()
            }
            2 => {
                let wide = Array2::from_shape_fn((2 * n, p + 1), |(i, j)| {
                    if i % 2 == 1 && j < p { cols[j][i / 2] } else { F::cast(4.0) }
                });
                DatasetBase::from(wide.slice(s![1..;2, ..p])).pearson_correlation().get_coeffs().clone()
            }
            _ => DatasetBase::from(a.clone()).pearson_correlation_with_p_value(3).get_coeffs().clone(),
        };
        v.iter().map(|x| x.to_f64().unwrap()).collect()
    })
}

/// textbook r_ij with its noise floor, in upper-triangle order
fn pearson_oracle(cols: &[Vec<f64>], eps: f64) -> Option<Vec<(f64, f64)>> {
    let p = cols.len();
    let n = cols[0].len() as f64;
    let means: Vec<f64> = cols.iter().map(|c| ksum(c.iter().cloned()) / n).collect();
    let ss: Vec<f64> = cols.iter().zip(&means).map(|(c, m)| ksum(c.iter().map(|v| (v - m) * (v - m)))).collect();
    if ss.iter().any(|s| !(*s > 0.0)) || cols.iter().any(|c| c.iter().all(|v| *v == c[0])) {
        return None;
    }
    // error of an F-computed column mean (worst case summation)
    let dl: Vec<f64> = cols.iter().map(|c| n * eps * c.iter().map(|v| v.abs()).fold(0.0, f64::max)).collect();
    let mut out = vec![];
    for i in 0..p {
        for j in (i + 1)..p {
            let sxy = ksum(cols[i].iter().zip(&cols[j]).map(|(a, b)| (a - means[i]) * (b - means[j])));
            let r = sxy / (ss[i] * ss[j]).sqrt();
            let tol = 32.0 * (n + 16.0) * eps
                + 16.0 * n * (dl[i] * dl[i] / ss[i] + dl[j] * dl[j] / ss[j] + dl[i] * dl[j] / (ss[i] * ss[j]).sqrt());
            out.push((r, tol));
        }
    }
    Some(out)
}

fn gen_pearson<F: Float>(rng: &mut Rng, n: usize, p: usize) -> Vec<Vec<F>> {
    let wide = eps_of::<F>() < 1e-10;
    let mut cols: Vec<Vec<f64>> = vec![];
    for j in 0..p {
        let kind = if j == 0 { 0 } else { rng.gen_range(0..7) };
        let scale = gen::log_uniform(rng, 1e-3, 1e3);
        let offset = match rng.gen_range(0..3) {
            0 => 0.0,
            1 => *gen::pick(rng, &[1e3, -1e3]),
            _ => scale * gen::log_uniform(rng, 1.0, if wide { 1e5 } else { 1e2 }),
        };
        let col: Vec<f64> = match kind {
            0 | 1 => (0..n).map(|_| offset + scale * gen::normal(rng)).collect(),
            2 => (0..n).map(|_| offset + scale * rng.gen_range(-2..=2) as f64).collect(),
            3 => {
                let src = rng.gen_range(0..j);
                cols[src].iter().map(|v| offset + scale * v).collect()
            }
            4 => {
                let src = rng.gen_range(0..j);
                cols[src].iter().map(|v| offset - 0.5 * v).collect()
            }
            5 => {
                let src = rng.gen_range(0..j);
                let sd = (cols[src].iter().map(|v| v * v).sum::<f64>() / n as f64).sqrt().max(1e-30);
                cols[src].iter().map(|v| v + sd * gen::normal(rng) * 0.5).collect()
            }
            _ => (0..n).map(|i| offset + scale * i as f64).collect(),
        };
        cols.push(col);
    }
    cols.iter().map(|c| c.iter().map(|v| F::cast(*v)).collect()).collect()
}

// =====================================================================================
// families
// =====================================================================================

fn rand_labels(rng: &mut Rng, n: usize) -> (Vec<usize>, Vec<usize>, usize) {
    // codes 0..k; prediction and truth draw from (possibly different) subsets of the alphabet
    let k = rng.gen_range(1..=8usize);
    let subset = |rng: &mut Rng| -> Vec<usize> {
        let mut s: Vec<usize> = (0..k).filter(|_| rng.gen_bool(0.7)).collect();
        if s.is_empty() {
            s.push(rng.gen_range(0..k));
        }
        s
    };
    let (sp, st) = match rng.gen_range(0..4) {
        0 => ((0..k).collect::<Vec<_>>(), (0..k).collect::<Vec<_>>()),
        1 => (subset(rng), subset(rng)),
        2 => {
            // disjoint halves
            let h = (k / 2).max(1);
            ((0..h).collect(), if h < k { (h..k).collect() } else { vec![0] })
        }
        _ => (subset(rng), (0..k).collect()),
    };
    let truth: Vec<usize> = (0..n)
        .map(|_| {
            // skewed class frequencies
            let a = rng.gen_range(0..st.len());
            let b = rng.gen_range(0..st.len());
            st[a.min(b)]
        })
        .collect();
    let agree = rng.gen::<f64>();
    let pred: Vec<usize> = truth
        .iter()
        .map(|t| {
            if rng.gen::<f64>() < agree && sp.contains(t) {
                *t
            } else {
                sp[rng.gen_range(0..sp.len())]
            }
        })
        .collect();
    (pred, truth, k)
}

fn usize_label(code: usize) -> usize {
    // order-preserving but far from 0..k
    match code {
        0 => 0,
        7 => usize::MAX,
        c => c * 1_000_003 + 17,
    }
}
fn string_label(code: usize) -> String {
    ["", "b", "Zed x", "ß", "a", "10", "9", "b b"][code % 8].to_string()
}

pub fn run(ctx: &Ctx) {
    ctx.set_rule(
        "label vectors: every (prediction, truth) pair over an alphabet of 3 symbols up to the tier's \
         length (usize / String / bool mappings), random long pairs with differing label sets, every \
         public receiver/argument combination; scores: every vector over the grid {0,1/8,..,1} x every \
         labelling with both classes, random f32 scores that are equal or >= 1.9e-6 apart, plus saturated scores (neighbouring f32 values below 1, multiples of 1e-8 above 0); regression: \
         random f32/f64 vectors and matrices (scale 1e-6..1e6, offsets, lattices with ties, exact hits), \
         truth non-constant; clusterings with >= 2 clusters of >= 2 distinct points (all labelings of \
         small point sets + random); Pearson on random matrices with non-constant columns. A case is \
         non-trivial when the scores are not all forced by a degenerate input (labels: >= 2 labels in \
         the union; scores: a tie or a boundary score or >= 3 samples; regression: prediction != truth \
         somewhere). Batched exhaustive cases count every pair in `evaluations`; distinct = distinct \
         case descriptors (parameters + data hash).",
    );
    ctx.assume("confusion-matrix cells are observed through the public Debug rendering of ConfusionMatrix (labels without ' | ' and without leading/trailing blanks)");
    ctx.assume("precision/recall are judged against the prose documentation of ConfusionMatrix (precision = correct / items of the class, recall = correct / classifications as the class), which is what the suite pins; this is the transpose of the usual textbook naming for a matrix whose rows are predictions");
    ctx.assume("log-loss clip = f32::EPSILON (linfa's convention); scores closer than 1e-10 are never generated");
    ctx.assume("a documented formula with a zero denominator is undefined: any returned value is accepted and counted");

    let lmax: usize = ctx.tier.pick(5, 7);
    let t0 = std::time::Instant::now();
    let timing = std::env::var("C05_TIMING").is_ok();
    let lap = |name: &str| {
        if timing {
            eprintln!("[timing] before {name}: {:.1}s", t0.elapsed().as_secs_f64());
        }
    };

    // ---------------------------------------------------------------- cm-exhaustive
    let mut plan: Vec<(usize, usize)> = vec![];
    for n in 1..=lmax {
        for pc in 0..ipow(3, n) {
            plan.push((n, pc));
        }
    }
    if ctx.tier == Tier::Quick {
        // a slice of the next length: every 8th prediction vector against all truth vectors
        for pc in (0..ipow(3, lmax + 1)).step_by(8) {
            plan.push((lmax + 1, pc));
        }
    }
    ctx.set_exhaustive(&format!("label-vector pairs over 3 symbols, length 1..={lmax} (usize mapping)"), true);
    let planr = &plan;
    ctx.family("cm-exhaustive", plan.len() as u64, |c| {
        let (n, pc) = planr[c.idx as usize];
        let pd = digits(pc, n, 3);
        let mut evals = 0u64;
        c.note("n", json!(n));
        c.note("pred_code", json!(pd));
        for tc in 0..ipow(3, n) {
            let td = digits(tc, n, 3);
            let pu: Vec<usize> = pd.iter().map(|d| USIZE_MAP[*d]).collect();
            let tu: Vec<usize> = td.iter().map(|d| USIZE_MAP[*d]).collect();
            if let Err(o) = check_cm(c, &pu, &tu, 0, true) {
                return o;
            }
            evals += 1;
            if n <= 4 || (n <= 6 && (pc + tc) % 3 == 0) || (pc + 2 * tc) % 9 == 0 {
                let ps: Vec<String> = pd.iter().map(|d| STR_MAP[*d].to_string()).collect();
                let ts: Vec<String> = td.iter().map(|d| STR_MAP[*d].to_string()).collect();
                if let Err(o) = check_cm(c, &ps, &ts, 0, true) {
                    return o;
                }
                evals += 1;
            }
            if pd.iter().chain(&td).all(|d| *d < 2) {
                let pb: Vec<bool> = pd.iter().map(|d| BOOL_MAP[*d]).collect();
                let tb: Vec<bool> = td.iter().map(|d| BOOL_MAP[*d]).collect();
                if let Err(o) = check_cm(c, &pb, &tb, 0, true) {
                    return o;
                }
                let ps: Vec<&'static str> = pd.iter().map(|d| STR_MAP[*d]).collect();
                let ts: Vec<&'static str> = td.iter().map(|d| STR_MAP[*d]).collect();
                if let Err(o) = check_cm(c, &ps, &ts, 0, true) {
                    return o;
                }
                evals += 2;
            }
        }
        c.evals = evals;
        held(n >= 2, format!("n={n} pred={pd:?}"))
    });

    // ---------------------------------------------------------------- cm-random
    lap("cm-random");
    ctx.family("cm-random", ctx.tier.pick(1500, 6000), |c| {
        let n = match c.rng.gen_range(0..3) {
            0 => c.rng.gen_range(1..12),
            _ => c.rng.gen_range(1..c.tier.pick(300, 2000)),
        };
        let (pred, truth, k) = rand_labels(&mut c.rng, n);
        let ty = c.rng.gen_range(0..3);
        c.note("n", json!(n));
        c.note("alphabet", json!(k));
        c.note("label_type", json!(["usize", "String", "bool"][ty]));
        let perm = gen::permutation(&mut c.rng, n);
        macro_rules! go {
            ($map:expr) => {{
                let p: Vec<_> = pred.iter().map(|x| $map(*x)).collect();
                let t: Vec<_> = truth.iter().map(|x| $map(*x)).collect();
                if let Err(o) = check_cm(c, &p, &t, (c.idx % 2) as usize, true) {
                    return o;
                }
                // one permutation applied to both: identical cells, hence identical scores
                let (pp, tp) = (permute(&p, &perm), permute(&t, &perm));
                let a = build_cm(&p, &t, 0).ok().and_then(|x| x.ok());
                let b = build_cm(&pp, &tp, 0).ok().and_then(|x| x.ok());
                match (a, b) {
                    (Some(a), Some(b)) => {
                        let same = format!("{a:?}") == format!("{b:?}")
                            && a.accuracy().to_bits() == b.accuracy().to_bits()
                            && a.mcc().to_bits() == b.mcc().to_bits()
                            && a.precision().to_bits() == b.precision().to_bits()
                            && a.recall().to_bits() == b.recall().to_bits();
                        ensure!(same, "C05/confusion_matrix/permutation",
                            {"pred": labels_json(&p), "truth": labels_json(&t), "perm": perm});
                    }
                    _ => bail!("C05/confusion_matrix/permutation", {"why": "permuted call failed", "pred": labels_json(&p)}),
                }
                let mut u: Vec<_> = p.iter().chain(t.iter()).cloned().collect();
                u.sort();
                u.dedup();
                u.len()
            }};
        }
        let nl = match ty {
            0 => go!(usize_label),
            1 => go!(string_label),
            _ => go!(|x: usize| x % 2 == 0),
        };
        held(nl >= 2 && pred != truth, format!("n={n} k={k} ty={ty} h={:x}",
            small_hash(&pred.iter().map(|x| *x as f64).collect::<Vec<_>>()) ^ small_hash(&truth.iter().map(|x| *x as f64 + 0.5).collect::<Vec<_>>())))
    });

    // ---------------------------------------------------------------- cm-receivers
    lap("cm-receivers");
    ctx.family("cm-receivers", ctx.tier.pick(1600, 4000), |c| {
        let variant = (c.idx % CM_VARIANTS.len() as u64) as usize;
        let n = c.rng.gen_range(1..40);
        let (pred, truth, k) = rand_labels(&mut c.rng, n);
        c.note("api", json!(CM_VARIANTS[variant]));
        c.note("n", json!(n));
        let r = if c.rng.gen_bool(0.5) {
            let p: Vec<usize> = pred.iter().map(|x| usize_label(*x)).collect();
            let t: Vec<usize> = truth.iter().map(|x| usize_label(*x)).collect();
            check_cm(c, &p, &t, variant, true)
        } else {
            let p: Vec<String> = pred.iter().map(|x| string_label(*x)).collect();
            let t: Vec<String> = truth.iter().map(|x| string_label(*x)).collect();
            check_cm(c, &p, &t, variant, true)
        };
        if let Err(o) = r {
            return o;
        }
        // symmetric matrices cannot show a transposition
        let o = LabelOracle::new(&pred, &truth);
        let asym = o.cells_f() != transposed(&o.cells_f());
        if asym {
            c.count("asymmetric-matrices");
        }
        held(asym, format!("v={variant} n={n} k={k} p={pred:?} t={truth:?}"))
    });

    // ---------------------------------------------------------------- cm-one-vs-one
    lap("cm-one-vs-one");
    let ovo_len = 4usize;
    let mut oplan: Vec<(usize, usize)> = vec![];
    for n in 1..=ovo_len {
        for pc in 0..ipow(3, n) {
            oplan.push((n, pc));
        }
    }
    let nex = oplan.len() as u64;
    ctx.set_exhaustive(&format!("one-vs-one: label-vector pairs over 3 symbols, length 1..={ovo_len}"), true);
    let oplanr = &oplan;
    ctx.family("cm-one-vs-one", nex + ctx.tier.pick(300, 3000), |c| {
        if c.idx < nex {
            let (n, pc) = oplanr[c.idx as usize];
            let pd = digits(pc, n, 3);
            for tc in 0..ipow(3, n) {
                let td = digits(tc, n, 3);
                let pu: Vec<usize> = pd.iter().map(|d| USIZE_MAP[*d]).collect();
                let tu: Vec<usize> = td.iter().map(|d| USIZE_MAP[*d]).collect();
                if let Err(o) = check_ovo(c, &pu, &tu) {
                    return o;
                }
            }
            c.evals = ipow(3, n) as u64;
            return held(n >= 2, format!("exh n={n} pred={pd:?}"));
        }
        let n = c.rng.gen_range(1..200);
        let (pred, truth, k) = rand_labels(&mut c.rng, n);
        c.note("n", json!(n));
        let r = if c.rng.gen_bool(0.5) {
            let p: Vec<usize> = pred.iter().map(|x| usize_label(*x)).collect();
            let t: Vec<usize> = truth.iter().map(|x| usize_label(*x)).collect();
            check_ovo(c, &p, &t)
        } else {
            let p: Vec<String> = pred.iter().map(|x| string_label(*x)).collect();
            let t: Vec<String> = truth.iter().map(|x| string_label(*x)).collect();
            check_ovo(c, &p, &t)
        };
        if let Err(o) = r {
            return o;
        }
        held(k >= 2, format!("rnd n={n} k={k} p={pred:?} t={truth:?}"))
    });

    // ---------------------------------------------------------------- roc-exhaustive
    lap("roc-exhaustive");
    // case = (n, labelling with both classes, first score); all 9^(n-1) remaining score vectors inside
    let rmax: usize = ctx.tier.pick(5, 6);
    let mut rplan: Vec<(usize, usize, usize)> = vec![];
    for n in 2..=rmax {
        for mask in 1..(ipow(2, n) - 1) {
            for s0 in 0..9 {
                rplan.push((n, mask, s0));
            }
        }
    }
    ctx.set_exhaustive(&format!("score vectors over {{0,1/8,..,1}}^n x labellings with both classes, n=2..={rmax}"), true);
    let rplanr = &rplan;
    ctx.family("roc-exhaustive", rplan.len() as u64, |c| {
        let (n, mask, s0) = rplanr[c.idx as usize];
        let y: Vec<bool> = (0..n).map(|i| mask >> i & 1 == 1).collect();
        c.note("n", json!(n));
        c.note("labels", json!(y));
        c.note("first_score", json!(s0 as f64 / 8.0));
        let variant = (c.idx % 3) as usize;
        let rest = ipow(9, n - 1);
        for code in 0..rest {
            let mut dg = digits(code, n - 1, 9);
            dg.insert(0, s0);
            let s: Vec<f32> = dg.iter().map(|d| *d as f32 / 8.0).collect();
            if let Err(o) = check_roc(c, &s, &y, variant) {
                return o;
            }
        }
        c.evals = rest as u64;
        held(true, format!("n={n} mask={mask} s0={s0}"))
    });

    // ---------------------------------------------------------------- roc-random
    lap("roc-random");
    ctx.family("roc-random", ctx.tier.pick(2000, 8000), |c| {
        let n = match c.rng.gen_range(0..3) {
            0 => c.rng.gen_range(2..10),
            _ => c.rng.gen_range(2..c.tier.pick(300, 2000)),
        };
        let (s, y, kind) = gen_scores(&mut c.rng, n);
        let variant = (c.idx % ROC_VARIANTS.len() as u64) as usize;
        c.note("n", json!(n));
        c.note("gen", json!(kind));
        c.note("api", json!(ROC_VARIANTS[variant]));
        let auc = match check_roc(c, &s, &y, variant) {
            Ok(a) => a,
            Err(o) => return o,
        };
        let perm = gen::permutation(&mut c.rng, n);
        let auc_p = match check_roc(c, &permute(&s, &perm), &permute(&y, &perm), variant) {
            Ok(a) => a,
            Err(o) => return o,
        };
        ensure!((auc - auc_p).abs() <= 32.0 * (n as f64 + 16.0) * E32, "C05/roc/permutation",
            {"case": roc_ctx(&s, &y, variant), "auc": auc, "auc_permuted": auc_p});
        let mut u = s.clone();
        u.sort_by(|a, b| a.partial_cmp(b).unwrap());
        let ties = u.windows(2).any(|w| w[0] == w[1]);
        if ties {
            c.count("roc-cases-with-tied-scores");
        }
        if s.contains(&0.0) {
            c.count("roc-cases-with-score-0");
        }
        held(n >= 3 || ties, format!("n={n} {kind} v={variant} h={:x}", small_hash(&s.iter().map(|x| *x as f64).collect::<Vec<_>>())))
    });

    // ---------------------------------------------------------------- logloss-exhaustive
    lap("logloss-exhaustive");
    let llmax: usize = ctx.tier.pick(4, 5);
    let mut lplan: Vec<(usize, usize)> = vec![];
    for n in 1..=llmax {
        for mask in 0..ipow(2, n) {
            lplan.push((n, mask));
        }
    }
    ctx.set_exhaustive(&format!("log-loss: score vectors over {{0,1/8,..,1}}^n x all labellings, n=1..={llmax}"), true);
    let lplanr = &lplan;
    ctx.family("logloss-exhaustive", lplan.len() as u64, |c| {
        let (n, mask) = lplanr[c.idx as usize];
        let y: Vec<bool> = (0..n).map(|i| mask >> i & 1 == 1).collect();
        c.note("n", json!(n));
        c.note("labels", json!(y));
        let variant = (c.idx % 3) as usize;
        for code in 0..ipow(9, n) {
            let s: Vec<f32> = digits(code, n, 9).iter().map(|d| *d as f32 / 8.0).collect();
            if let Err(o) = check_log_loss(c, &s, &y, variant) {
                return o;
            }
        }
        c.evals = ipow(9, n) as u64;
        held(true, format!("n={n} mask={mask}"))
    });

    // ---------------------------------------------------------------- logloss-random
    lap("logloss-random");
    ctx.family("logloss-random", ctx.tier.pick(1500, 6000), |c| {
        let n = c.rng.gen_range(2..c.tier.pick(300, 2000));
        let (mut s, y, kind) = gen_scores(&mut c.rng, n);
        if c.rng.gen_bool(0.3) {
            // arbitrary f32 probabilities, including values below the clip
            for v in s.iter_mut() {
                let u: f64 = c.rng.gen();
                *v = match c.rng.gen_range(0..4) {
                    0 => (u * 1e-7) as f32,
                    1 => 1.0 - (u * 1e-6) as f32,
                    _ => u as f32,
                };
            }
        }
        let variant = (c.idx % ROC_VARIANTS.len() as u64) as usize;
        c.note("n", json!(n));
        c.note("api", json!(ROC_VARIANTS[variant]));
        let a = match check_log_loss(c, &s, &y, variant) {
            Ok(a) => a,
            Err(o) => return o,
        };
        let perm = gen::permutation(&mut c.rng, n);
        let b = match check_log_loss(c, &permute(&s, &perm), &permute(&y, &perm), variant) {
            Ok(a) => a,
            Err(o) => return o,
        };
        ensure!((a - b).abs() <= 32.0 * (n as f64 + 16.0) * E32 * (1.0 + a.abs()), "C05/log_loss/permutation",
            {"case": roc_ctx(&s, &y, variant), "value": a, "permuted": b});
        held(true, format!("n={n} {kind} v={variant} h={:x}", small_hash(&s.iter().map(|x| *x as f64).collect::<Vec<_>>())))
    });

    // ---------------------------------------------------------------- regression-basic
    lap("regression-basic");
    fn perm_ok(a: f64, b: f64, scale_tol: f64) -> bool {
        (a.is_nan() && b.is_nan()) || (a - b).abs() <= scale_tol
    }
    fn basic<F: Float>(c: &mut Case, log_domain: bool) -> Outcome {
        let (g, gp, o, eps, ctxj, key) = match single_case::<F>(c, "regression", log_domain) {
            Ok(x) => x,
            Err(o) => return o,
        };
        if let Err(out) = check_basic(c, &g, &o, eps, &ctxj) {
            return out;
        }
        // permutation: max and median exactly, the means within twice the floor
        ensure!(g.max == gp.max && g.median == gp.median, "C05/regression/permutation",
            {"case": ctxj, "max": [g.max, gp.max], "median": [g.median, gp.median]});
        let sr = 2.0 * o.sum_rel(eps);
        let msle_tol = match o.msle {
            Some((e, _, _)) => sr * e,
            None => 0.0,
        };
        ensure!(perm_ok(g.mae, gp.mae, sr * o.mae) && perm_ok(g.mse, gp.mse, sr * o.mse)
                && (o.mape.is_none() || perm_ok(g.mape, gp.mape, sr * o.mape.unwrap()))
                && (o.msle.is_none() || perm_ok(g.msle, gp.msle, msle_tol)),
            "C05/regression/permutation",
            {"case": ctxj, "original": format!("{g:?}"), "permuted": format!("{gp:?}")});
        held(o.sse > 0.0, key)
    }
    ctx.family("regression-basic", ctx.tier.pick(4000, 15000), |c| {
        let log_domain = c.idx % 3 == 0;
        if c.idx % 2 == 0 {
            basic::<f64>(c, log_domain)
        } else {
            basic::<f32>(c, log_domain)
        }
    });

    // ---------------------------------------------------------------- regression-r2
    lap("regression-r2");
    fn r2case<F: Float>(c: &mut Case) -> Outcome {
        let (g, gp, o, eps, ctxj, key) = match single_case::<F>(c, "r2", false) {
            Ok(x) => x,
            Err(o) => return o,
        };
        if let Err(out) = check_r2(c, &g, &o, eps, &ctxj) {
            return out;
        }
        ensure!((g.r2 - gp.r2).abs() <= 2.0 * o.r2_tol(eps), "C05/r2/permutation",
            {"case": ctxj, "value": g.r2, "permuted": gp.r2});
        held(o.sse > 0.0, key)
    }
    ctx.family("regression-r2", ctx.tier.pick(4000, 15000), |c| {
        if c.idx % 2 == 0 {
            r2case::<f64>(c)
        } else {
            r2case::<f32>(c)
        }
    });

    // ---------------------------------------------------------------- regression-explained-variance
    lap("regression-explained-variance");
    fn evcase<F: Float>(c: &mut Case) -> Outcome {
        let (g, gp, o, eps, ctxj, key) = match single_case::<F>(c, "explained_variance", false) {
            Ok(x) => x,
            Err(o) => return o,
        };
        ensure!((g.ev - gp.ev).abs() <= 2.0 * o.ev_tol(eps).max(o.ev_defect_tol(eps)), "C05/explained_variance/permutation",
            {"case": ctxj, "value": g.ev, "permuted": gp.ev});
        if let Err(out) = check_ev(c, &g, &o, eps, &ctxj) {
            return out;
        }
        held(o.sse > 0.0, key)
    }
    ctx.family("regression-explained-variance", ctx.tier.pick(4000, 15000), |c| {
        if c.idx % 2 == 0 {
            evcase::<f64>(c)
        } else {
            evcase::<f32>(c)
        }
    });

    // ---------------------------------------------------------------- regression-multi
    lap("regression-multi");
    fn multi<F: Float>(c: &mut Case) -> Outcome {
        let ty = if eps_of::<F>() < 1e-10 { "f64" } else { "f32" };
        let t = c.rng.gen_range(1..=4usize);
        let n = c.rng.gen_range(2..c.tier.pick(120, 400));
        let variant = c.rng.gen_range(0..MULTI_VARIANTS.len());
        let mut ps = vec![];
        let mut ys = vec![];
        for j in 0..t {
            let (p, y, _) = gen_reg::<F>(&mut c.rng, n, j == 1);
            if to64(&y).iter().all(|v| *v == y[0].to_f64().unwrap()) {
                return inconclusive("truth constant after rounding to F");
            }
            ps.push(p);
            ys.push(y);
        }
        c.note("n", json!(n));
        c.note("targets", json!(t));
        c.note("type", json!(ty));
        c.note("api", json!(MULTI_VARIANTS[variant]));
        let got = match run_multi(&ps, &ys, variant) {
            Err(p) => bail!("C05/multi_target/panic", {"api": MULTI_VARIANTS[variant], "n": n, "targets": t, "type": ty, "panic": p}),
            Ok(Err(e)) => bail!("C05/multi_target/spurious-error", {"api": MULTI_VARIANTS[variant], "n": n, "targets": t, "err": e}),
            Ok(Ok(g)) => g,
        };
        ensure!(got.len() == 8 && got.iter().all(|m| m.len() == t), "C05/multi_target/shape",
            {"api": MULTI_VARIANTS[variant], "targets": t, "lengths": got.iter().map(|m| m.len()).collect::<Vec<_>>()});
        let eps = eps_of::<F>();
        let mut pending: Option<Outcome> = None;
        for j in 0..t {
            let (p64, y64) = (to64(&ps[j]), to64(&ys[j]));
            let o = reg_oracle(&p64, &y64);
            let mut ctxj = reg_ctx(&p64, &y64, ty, MULTI_VARIANTS[variant]);
            ctxj["column"] = json!(j);
            ctxj["targets"] = json!(t);
            let g = RegGot {
                max: got[0][j], mae: got[1][j], mse: got[2][j], msle: got[3][j],
                median: got[4][j], mape: got[5][j], r2: got[6][j], ev: got[7][j],
            };
            if let Err(out) = check_basic(c, &g, &o, eps, &ctxj) {
                return out;
            }
            if let Err(out) = check_r2(c, &g, &o, eps, &ctxj) {
                return out;
            }
            if let Err(out) = check_ev(c, &g, &o, eps, &ctxj) {
                // the known explained-variance deviation is reported only when nothing else fails
                let is_known = matches!(&out, Outcome::Violated { sig, .. } if sig == "C05/explained_variance/mean-error-not-squared");
                if !is_known {
                    return out;
                }
                if pending.is_none() {
                    pending = Some(out);
                }
            }
        }
        if let Some(out) = pending {
            return out;
        }
        held(true, format!("{ty} n={n} t={t} v={variant} h={:x}", small_hash(&to64(&ps[0]))))
    }
    ctx.family("regression-multi", ctx.tier.pick(2000, 6000), |c| {
        if c.idx % 2 == 0 {
            multi::<f64>(c)
        } else {
            multi::<f32>(c)
        }
    });

    // ---------------------------------------------------------------- silhouette-exhaustive
    lap("silhouette-exhaustive");
    // one case = one small point set; every labelling over <= 3 labels that is in the domain
    ctx.family("silhouette-exhaustive", ctx.tier.pick(40, 200), |c| {
        let n = c.rng.gen_range(4..=c.tier.pick(7, 8));
        let d = c.rng.gen_range(1..=2usize);
        let off = *gen::pick(&mut c.rng, &[0.0, 1000.0, -37.0]);
        let x: Vec<Vec<f64>> = (0..n)
            .map(|_| (0..d).map(|_| off + c.rng.gen_range(0..4) as f64 * 0.5).collect())
            .collect();
        c.note("points", json!(x));
        let f32_case = c.idx % 2 == 1;
        let mut done = 0u64;
        for code in 0..ipow(3, n) {
            let lab = digits(code, n, 3);
            if !clusters_in_domain(&x, &lab) {
                continue;
            }
            let variant = code % SIL_VARIANTS.len();
            let r = if f32_case {
                let xf: Vec<Vec<f32>> = x.iter().map(|r| r.iter().map(|v| *v as f32).collect()).collect();
                check_silhouette(c, &xf, &lab, variant)
            } else {
                check_silhouette(c, &x, &lab, variant)
            };
            match r {
                Ok(_) => done += 1,
                Err(Outcome::Inconclusive(_)) => {}
                Err(o) => return o,
            }
        }
        if done == 0 {
            return inconclusive("no labelling of this point set is in the domain");
        }
        c.evals = done;
        c.count_n("silhouette-labelings-enumerated", done);
        held(true, format!("n={n} d={d} f32={f32_case} pts={x:?}"))
    });

    // ---------------------------------------------------------------- silhouette-random
    lap("silhouette-random");
    fn sil<F: Float>(c: &mut Case) -> Outcome {
        let k = c.rng.gen_range(2..=6usize);
        let n = c.rng.gen_range(2 * k..(2 * k + c.tier.pick(50, 140)));
        let d = c.rng.gen_range(1..=5usize);
        let lattice = c.rng.gen_bool(0.35);
        let off = *gen::pick(&mut c.rng, &[0.0, 0.0, 1000.0, -250.0]);
        let scale = gen::log_uniform(&mut c.rng, 1e-2, 1e2);
        let spread = *gen::pick(&mut c.rng, &[0.5, 3.0, 10.0]);
        let centers: Vec<Vec<f64>> = (0..k).map(|_| (0..d).map(|_| gen::uniform(&mut c.rng, -spread, spread)).collect()).collect();
        // every cluster at least twice, then random (possibly very unbalanced) memberships
        let mut lab: Vec<usize> = (0..k).chain(0..k).collect();
        while lab.len() < n {
            let a = c.rng.gen_range(0..k);
            let b = c.rng.gen_range(0..k);
            lab.push(a.min(b));
        }
        let shuffled = c.rng.gen_bool(0.5); // true labels or labels unrelated to geometry
        let mut x: Vec<Vec<f64>> = lab
            .iter()
            .map(|l| {
                let src = if shuffled { *l } else { c.rng.gen_range(0..k) };
                (0..d)
                    .map(|j| {
                        let v = if lattice {
                            (centers[src][j]).round() + c.rng.gen_range(-1..=1) as f64
                        } else {
                            centers[src][j] + gen::normal(&mut c.rng)
                        };
                        off + scale * v
                    })
                    .collect()
            })
            .collect();
        // duplicates across clusters
        if c.rng.gen_bool(0.3) {
            let i = c.rng.gen_range(0..n);
            let j = c.rng.gen_range(0..n);
            x[i] = x[j].clone();
        }
        let perm = gen::permutation(&mut c.rng, n);
        let x = permute(&x, &perm);
        let lab: Vec<usize> = permute(&lab, &perm).iter().map(|l| usize_label(*l + 1)).collect();
        let xf: Vec<Vec<F>> = x.iter().map(|r| r.iter().map(|v| F::cast(*v)).collect()).collect();
        let variant = c.rng.gen_range(0..SIL_VARIANTS.len());
        c.note("n", json!(n));
        c.note("d", json!(d));
        c.note("clusters", json!(k));
        c.note("api", json!(SIL_VARIANTS[variant]));
        let a = match check_silhouette(c, &xf, &lab, variant) {
            Ok(v) => v,
            Err(o) => return o,
        };
        let perm2 = gen::permutation(&mut c.rng, n);
        let b = match check_silhouette(c, &permute(&xf, &perm2), &permute(&lab, &perm2), variant) {
            Ok(v) => v,
            Err(o) => return o,
        };
        ensure!((a - b).abs() <= 16.0 * (n as f64 + d as f64 + 16.0) * eps_of::<F>(), "C05/silhouette/permutation",
            {"n": n, "d": d, "value": a, "permuted": b});
        held(true, format!("n={n} d={d} k={k} lat={lattice} v={variant} eps={:e} h={:x}", eps_of::<F>(), small_hash(&x[0])))
    }
    ctx.family("silhouette-random", ctx.tier.pick(1000, 3000), |c| {
        if c.idx % 2 == 0 {
            sil::<f64>(c)
        } else {
            sil::<f32>(c)
        }
    });

    // ---------------------------------------------------------------- pearson
    lap("pearson");
    fn pear<F: Float>(c: &mut Case) -> Outcome {
        let ty = if eps_of::<F>() < 1e-10 { "f64" } else { "f32" };
        let p = c.rng.gen_range(2..=6usize);
        let n = match c.rng.gen_range(0..3) {
            0 => c.rng.gen_range(2..6),
            _ => c.rng.gen_range(2..c.tier.pick(200, 800)),
        };
        let cols = gen_pearson::<F>(&mut c.rng, n, p);
        let c64: Vec<Vec<f64>> = cols.iter().map(|v| to64(v)).collect();
        if c64.iter().flatten().any(|v| !v.is_finite()) {
            return inconclusive("non-finite after rounding");
        }
        let exp = match pearson_oracle(&c64, eps_of::<F>()) {
            Some(e) => e,
            None => return inconclusive("a column is constant after rounding to F"),
        };
        // the p-value resampling is outside the property and panics (shape mismatch) when there are
        // fewer observations than features: that entry point is only used with n >= p
        let mut variant = c.rng.gen_range(0..PEARSON_VARIANTS.len());
        if variant == 3 && n < p {
            variant = 0;
        }
        c.note("n", json!(n));
        c.note("features", json!(p));
        c.note("type", json!(ty));
        c.note("api", json!(PEARSON_VARIANTS[variant]));
        let ctxj = if n * p <= 40 {
            json!({"type": ty, "api": PEARSON_VARIANTS[variant], "columns": c64})
        } else {
            json!({"type": ty, "api": PEARSON_VARIANTS[variant], "n": n, "features": p})
        };
        let got = match run_pearson(&cols, variant) {
            Ok(g) => g,
            Err(pm) => bail!("C05/pearson/panic", {"case": ctxj, "panic": pm}),
        };
        ensure!(got.len() == p * (p - 1) / 2, "C05/pearson/length",
            {"case": ctxj, "got": got.len(), "expected": p * (p - 1) / 2});
        let mut k = 0;
        for i in 0..p {
            for j in (i + 1)..p {
                let (r, tol) = exp[k];
                if !close(c, "pearson/threshold-ratio", got[k], r, tol) {
                    bail!("C05/pearson/value", {"case": ctxj, "pair": [i, j], "position": k, "got": fj(got[k]), "expected": r, "threshold": tol, "all_got": fjv(&got)});
                }
                k += 1;
            }
        }
        // one permutation of the observations
        let perm = gen::permutation(&mut c.rng, n);
        let colsp: Vec<Vec<F>> = cols.iter().map(|v| permute(v, &perm)).collect();
        match run_pearson(&colsp, variant) {
            Ok(gp) if gp.len() == got.len() => {
                for k in 0..got.len() {
                    ensure!((gp[k] - got[k]).abs() <= 2.0 * exp[k].1, "C05/pearson/permutation",
                        {"case": ctxj, "position": k, "value": got[k], "permuted": gp[k]});
                }
            }
            other => bail!("C05/pearson/permutation", {"case": ctxj, "permuted_call": format!("{other:?}")}),
        }
        held(true, format!("{ty} n={n} p={p} v={variant} h={:x}", small_hash(&c64[0]) ^ small_hash(&c64[p - 1]).rotate_left(9)))
    }
    ctx.family("pearson", ctx.tier.pick(2000, 6000), |c| {
        if c.idx % 2 == 0 {
            pear::<f64>(c)
        } else {
            pear::<f32>(c)
        }
    });
}
