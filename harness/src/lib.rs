//! linfa-verif: monitor framework shared by the per-property binaries (src/bin/cNN.rs).
#[macro_use]
pub mod fw;
pub mod gen;
pub mod oracle;
pub mod ser;
pub mod zoo;

use fw::{Ctx, Tier};

/// command line of every per-property binary:
///   cNN <quick|thorough> [--replay <file>]      |      cNN child <args...>
pub fn main_for(prop: &'static str, run: fn(&Ctx), child: Option<fn(&[String]) -> i32>) {
    let args: Vec<String> = std::env::args().collect();
    fw::install_panic_hook();
    if args.len() >= 2 && args[1] == "child" {
        match child {
            Some(f) => std::process::exit(f(&args[2..])),
            None => {
                eprintln!("{prop} has no child mode");
                std::process::exit(2);
            }
        }
    }
    let mut tier = match std::env::var("VERIF_TIER").ok().as_deref() {
        Some("thorough") => Tier::Thorough,
        _ => Tier::Quick,
    };
    let mut replay = None;
    let mut i = 1;
    while i < args.len() {
        match args[i].as_str() {
            "quick" => tier = Tier::Quick,
            "thorough" => tier = Tier::Thorough,
            "--replay" => {
                i += 1;
                let txt = std::fs::read_to_string(&args[i]).expect("replay file");
                let v: serde_json::Value = serde_json::from_str(&txt).expect("replay json");
                let fam = v["family"].as_str().expect("family").to_string();
                let idx = v["case"].as_u64().expect("case");
                if let Some(s) = v["seed"].as_u64() {
                    std::env::set_var("VERIF_SEED", s.to_string());
                }
                tier = if v["tier"].as_str() == Some("thorough") { Tier::Thorough } else { Tier::Quick };
                replay = Some((fam, idx));
            }
            other if other == prop => {}
            other => {
                eprintln!("unknown argument {other}");
                std::process::exit(2);
            }
        }
        i += 1;
    }
    let seed: u64 = std::env::var("VERIF_SEED")
        .ok()
        .and_then(|s| s.trim().parse::<i64>().ok())
        .map(|v| v as u64)
        .unwrap_or(0);
    let threads: usize = std::env::var("VERIF_THREADS").ok().and_then(|s| s.parse().ok()).unwrap_or(16);
    rayon::ThreadPoolBuilder::new().num_threads(threads).stack_size(16 << 20).build_global().ok();
    // the thorough tier repeats the seed-driven workload in further rounds with derived seeds
    // (VERIF_ROUNDS overrides; a replay is one round with the recorded seed)
    let rounds: u64 = if replay.is_some() {
        1
    } else {
        std::env::var("VERIF_ROUNDS").ok().and_then(|s| s.parse().ok()).unwrap_or(if tier == Tier::Thorough { 3 } else { 1 })
    };
    let mut ctx = Ctx::new(prop, tier, seed, replay);
    for r in 0..rounds.max(1) {
        ctx.set_round(r);
        run(&ctx);
    }
    std::process::exit(ctx.finish());
}
