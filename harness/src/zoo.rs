//! The model zoo: fitted instances of every predictor / transformer family behind one object-safe
//! interface, used by C03 (calling forms), C19 (serialisation round trips) and C20 (determinism).
use crate::fw::Rng;
use crate::gen;
use linfa::dataset::{DatasetBase, Pr};
use linfa::traits::*;
use linfa::{Dataset, ParamGuard};
use ndarray::{s, Array1, Array2, ArrayView2, Axis};
use rand::{Rng as _, SeedableRng};
use serde_json::Value;
use std::any::Any;

#[derive(Clone, Copy, Debug, PartialEq, Eq)]
pub enum Form {
    /// `model.predict(&Array2)`
    RefArray,
    /// `model.predict(&ArrayView2)` (any layout)
    RefView,
    /// `model.predict(Array2)` -> DatasetBase (records handed back)
    OwnedArray,
    /// `model.predict(ArrayView2)` -> DatasetBase
    OwnedView,
    /// `model.predict(&DatasetBase<Array2, _>)`
    RefDataset,
    /// `model.predict(DatasetBase<Array2, _>)` -> DatasetBase
    OwnedDataset,
    /// `model.predict_inplace(&x, &mut y)` on `default_target`
    Inplace,
}
pub const ALL_FORMS: [Form; 7] = [
    Form::RefArray,
    Form::RefView,
    Form::OwnedArray,
    Form::OwnedView,
    Form::RefDataset,
    Form::OwnedDataset,
    Form::Inplace,
];

#[derive(Clone, Copy, Debug, PartialEq, Eq)]
pub enum Layout {
    C,
    F,
    /// every second column of a wider buffer (views only)
    Stride2,
    /// rows stored in reverse order, viewed through a negative stride (views only)
    RevRows,
}
pub const ALL_LAYOUTS: [Layout; 4] = [Layout::C, Layout::F, Layout::Stride2, Layout::RevRows];

pub struct Pred {
    /// one row of outputs per input row
    pub rows: Vec<Vec<f64>>,
    /// dataset forms: the records handed back equal the input bit-for-bit
    pub records_ok: bool,
    /// shape of the returned target array (tells (0, 2) from (0, 0) on an empty batch)
    pub shape: Vec<usize>,
}

pub trait Subject: Send + Sync {
    fn name(&self) -> String;
    /// labels (exact comparison) or real values (noise floor)
    fn discrete(&self) -> bool;
    /// machine epsilon of the model's element type
    fn eps(&self) -> f64;
    fn nfeatures(&self) -> usize;
    fn supports(&self, form: Form, layout: Layout) -> bool;
    fn predict(&self, x: &Array2<f64>, form: Form, layout: Layout) -> Result<Pred, String>;
    /// additional row-wise outputs (predict_proba, transform, ...) through the plain form
    fn extra(&self, _x: &Array2<f64>) -> Vec<(String, Vec<Vec<f64>>)> {
        vec![]
    }
    /// JSON image of the learned state via the crate's serde feature (maps in key order)
    fn json(&self) -> Result<Value, String>;
    fn roundtrip_bincode(&self) -> Result<Box<dyn Subject>, String>;
    fn roundtrip_json(&self) -> Result<Box<dyn Subject>, String>;
    /// `PartialEq` with another subject of the same concrete type, where the type defines it
    fn same_as(&self, other: &dyn Subject) -> Option<bool>;
    fn as_any(&self) -> &dyn Any;
}

/// Build an array of element type `F` with the requested memory layout holding the logical values
/// of `x`, and hand a view of it to `f`.
pub fn with_layout<F: linfa::Float, R>(
    x: &Array2<f64>,
    layout: Layout,
    f: impl FnOnce(ArrayView2<F>) -> R,
) -> R {
    let (n, p) = x.dim();
    match layout {
        Layout::C => {
            let a: Array2<F> = Array2::from_shape_fn((n, p), |(i, j)| F::cast(x[[i, j]]));
            f(a.view())
        }
        Layout::F => {
            let a: Array2<F> = Array2::from_shape_fn((p, n), |(j, i)| F::cast(x[[i, j]]));
            f(a.t())
        }
        Layout::Stride2 => {
            let a: Array2<F> = Array2::from_shape_fn((n, 2 * p), |(i, j)| {
                if j % 2 == 0 {
                    F::cast(x[[i, j / 2]])
                } else {
                    F::cast(-7.5e3)
                }
            });
            f(a.slice(s![.., ..;2]))
        }
        Layout::RevRows => {
            let a: Array2<F> = Array2::from_shape_fn((n, p), |(i, j)| F::cast(x[[n - 1 - i, j]]));
            f(a.slice(s![..;-1, ..]))
        }
    }
}

pub fn owned_layout<F: linfa::Float>(x: &Array2<f64>, layout: Layout) -> Array2<F> {
    let (n, p) = x.dim();
    match layout {
        Layout::F => {
            let a: Array2<F> = Array2::from_shape_fn((p, n), |(j, i)| F::cast(x[[i, j]]));
            a.reversed_axes()
        }
        _ => Array2::from_shape_fn((n, p), |(i, j)| F::cast(x[[i, j]])),
    }
}

fn same_bits<F: linfa::Float>(a: &ArrayView2<F>, b: &ArrayView2<F>) -> bool {
    a.dim() == b.dim()
        && a.iter()
            .zip(b.iter())
            .all(|(x, y)| x.to_f64().unwrap().to_bits() == y.to_f64().unwrap().to_bits())
}

pub type Conv<E> = std::sync::Arc<dyn Fn(&E) -> f64 + Send + Sync>;

pub struct Sub1<M, F, E> {
    pub name: String,
    pub model: M,
    pub nfeat: usize,
    pub discrete: bool,
    pub conv: Conv<E>,
    pub extra: Option<std::sync::Arc<dyn Fn(&M, &Array2<F>) -> Vec<(String, Vec<Vec<f64>>)> + Send + Sync>>,
    pub _f: std::marker::PhantomData<F>,
}
pub struct Sub2<M, F, E> {
    pub name: String,
    pub model: M,
    pub nfeat: usize,
    pub discrete: bool,
    pub conv: Conv<E>,
    pub extra: Option<std::sync::Arc<dyn Fn(&M, &Array2<F>) -> Vec<(String, Vec<Vec<f64>>)> + Send + Sync>>,
    pub _f: std::marker::PhantomData<F>,
}

/// a dataset around `a` with three named target columns, sample weights and feature names
fn decorated<F: linfa::Float>(a: Array2<F>) -> DatasetBase<Array2<F>, Array2<u8>> {
    let (n, p) = a.dim();
    DatasetBase::new(a, Array2::<u8>::from_shape_fn((n, 3), |(i, j)| ((i + j) % 3) as u8))
        .with_weights(Array1::from_shape_fn(n, |i| 0.5 + (i % 4) as f32))
        .with_feature_names((0..p).map(|j| format!("feature-{j}")).collect::<Vec<_>>())
        .with_target_names(vec!["first", "second", "third"])
}
fn same_rows(a: &[Vec<f64>], b: &[Vec<f64>]) -> bool {
    a.len() == b.len() && a.iter().zip(b.iter()).all(|(r, q)| r.len() == q.len() && r.iter().zip(q.iter()).all(|(u, v)| u.to_bits() == v.to_bits()))
}

fn rows1<E>(a: &Array1<E>, conv: &Conv<E>) -> Vec<Vec<f64>> {
    a.iter().map(|e| vec![conv(e)]).collect()
}
fn rows2<E>(a: &Array2<E>, conv: &Conv<E>) -> Vec<Vec<f64>> {
    a.outer_iter().map(|r| r.iter().map(|e| conv(e)).collect()).collect()
}
pub fn rows_of<F: linfa::Float>(a: &Array2<F>) -> Vec<Vec<f64>> {
    a.outer_iter()
        .map(|r| r.iter().map(|e| e.to_f64().unwrap()).collect())
        .collect()
}

/// implements `Subject` for a wrapper around a model whose `PredictInplace` is generic over the
/// storage of the records (`ArrayBase<D, Ix2>`) and yields `$out<E>`
macro_rules! impl_subject {
    ($wrapper:ident, $out:ident, $rows:ident, eq = $eq:tt) => {
        impl<M, F, E> Subject for $wrapper<M, F, E>
        where
            F: linfa::Float,
            E: Clone + Send + Sync + 'static,
            M: Send + Sync + 'static + serde::Serialize + serde::de::DeserializeOwned + MaybeEq,
            M: PredictInplace<Array2<F>, $out<E>>,
            M: for<'a> PredictInplace<ArrayView2<'a, F>, $out<E>>,
        {
            fn name(&self) -> String {
                self.name.clone()
            }
            fn discrete(&self) -> bool {
                self.discrete
            }
            fn eps(&self) -> f64 {
                F::epsilon().to_f64().unwrap()
            }
            fn nfeatures(&self) -> usize {
                self.nfeat
            }
            fn supports(&self, form: Form, layout: Layout) -> bool {
                match form {
                    Form::RefView | Form::OwnedView => true,
                    _ => matches!(layout, Layout::C | Layout::F),
                }
            }
            fn predict(&self, x: &Array2<f64>, form: Form, layout: Layout) -> Result<Pred, String> {
                let m = &self.model;
                let conv = &self.conv;
                crate::fw::guarded(|| match form {
                    Form::RefArray => {
                        let a: Array2<F> = owned_layout(x, layout);
                        let y: $out<E> = m.predict(&a);
                        Pred { rows: $rows(&y, conv), records_ok: true, shape: y.shape().to_vec() }
                    }
                    Form::RefView => with_layout::<F, _>(x, layout, |v| {
                        let y: $out<E> = m.predict(&v);
                        Pred { rows: $rows(&y, conv), records_ok: true, shape: y.shape().to_vec() }
                    }),
                    Form::OwnedArray => {
                        let a: Array2<F> = owned_layout(x, layout);
                        let keep = a.clone();
                        let ds: DatasetBase<Array2<F>, $out<E>> = m.predict(a);
                        Pred {
                            rows: $rows(ds.targets(), conv),
                            records_ok: same_bits(&ds.records().view(), &keep.view())
                                && ds.records().strides() == keep.strides(),
                            shape: ds.targets().shape().to_vec(),
                        }
                    }
                    Form::OwnedView => with_layout::<F, _>(x, layout, |v| {
                        let ds: DatasetBase<ArrayView2<F>, $out<E>> = m.predict(v.clone());
                        Pred {
                            rows: $rows(ds.targets(), conv),
                            records_ok: same_bits(&ds.records().view(), &v)
                                && ds.records().as_ptr() == v.as_ptr(),
                            shape: ds.targets().shape().to_vec(),
                        }
                    }),
                    Form::RefDataset => {
                        let a: Array2<F> = owned_layout(x, layout);
                        let ds = DatasetBase::new(a.clone(), Array1::<u8>::zeros(x.nrows()));
                        let y: $out<E> = m.predict(&ds);
                        let first = $rows(&y, conv);
                        // the same records inside a dataset that carries everything a dataset can
                        // carry (three named target columns, weights, feature names)
                        let y: $out<E> = m.predict(&decorated(a));
                        let second = $rows(&y, conv);
                        Pred { rows: if same_rows(&first, &second) { first } else { second }, records_ok: true, shape: y.shape().to_vec() }
                    }
                    Form::OwnedDataset => {
                        let a: Array2<F> = owned_layout(x, layout);
                        let keep = a.clone();
                        let ds = DatasetBase::new(a.clone(), Array1::<u8>::zeros(x.nrows()));
                        let out: DatasetBase<Array2<F>, $out<E>> = m.predict(ds);
                        let first = $rows(out.targets(), conv);
                        let ok1 = same_bits(&out.records().view(), &keep.view());
                        let out: DatasetBase<Array2<F>, $out<E>> = m.predict(decorated(a));
                        let second = $rows(out.targets(), conv);
                        let ok2 = same_bits(&out.records().view(), &keep.view());
                        Pred {
                            rows: if same_rows(&first, &second) { first } else { second },
                            records_ok: ok1 && ok2,
                            shape: out.targets().shape().to_vec(),
                        }
                    }
                    Form::Inplace => {
                        let a: Array2<F> = owned_layout(x, layout);
                        let mut y: $out<E> = m.default_target(&a);
                        m.predict_inplace(&a, &mut y);
                        let first = $rows(&y, conv);
                        // the target buffer is an output: predicting into a buffer that already
                        // holds values (here: the previous predictions, rotated by one row) must
                        // overwrite them
                        if y.len() > 1 {
                            let n0 = y.len_of(Axis(0));
                            let rotated = y.select(Axis(0), &(0..n0).map(|i| (i + 1) % n0).collect::<Vec<_>>());
                            y.assign(&rotated);
                        }
                        m.predict_inplace(&a, &mut y);
                        let second = $rows(&y, conv);
                        let same = first.len() == second.len()
                            && first.iter().zip(second.iter()).all(|(r, q)| r.iter().zip(q.iter()).all(|(u, v)| u.to_bits() == v.to_bits()));
                        Pred { rows: if same { first } else { second }, records_ok: same, shape: y.shape().to_vec() }
                    }
                })
            }
            fn extra(&self, x: &Array2<f64>) -> Vec<(String, Vec<Vec<f64>>)> {
                match &self.extra {
                    Some(f) => {
                        let a: Array2<F> = owned_layout(x, Layout::C);
                        f(&self.model, &a)
                    }
                    None => vec![],
                }
            }
            fn json(&self) -> Result<Value, String> {
                serde_json::to_value(&self.model).map_err(|e| format!("{e}"))
            }
            fn roundtrip_bincode(&self) -> Result<Box<dyn Subject>, String> {
                let bytes = bincode::serialize(&self.model).map_err(|e| format!("serialize: {e}"))?;
                let model: M = bincode::deserialize(&bytes).map_err(|e| format!("deserialize: {e}"))?;
                Ok(Box::new($wrapper {
                    name: self.name.clone(),
                    model,
                    nfeat: self.nfeat,
                    discrete: self.discrete,
                    conv: self.conv.clone(),
                    extra: self.extra.clone(),
                    _f: std::marker::PhantomData::<F>,
                }))
            }
            fn roundtrip_json(&self) -> Result<Box<dyn Subject>, String> {
                let txt = serde_json::to_string(&self.model).map_err(|e| format!("serialize: {e}"))?;
                let model: M = serde_json::from_str(&txt).map_err(|e| format!("deserialize: {e}"))?;
                Ok(Box::new($wrapper {
                    name: self.name.clone(),
                    model,
                    nfeat: self.nfeat,
                    discrete: self.discrete,
                    conv: self.conv.clone(),
                    extra: self.extra.clone(),
                    _f: std::marker::PhantomData::<F>,
                }))
            }
            fn same_as(&self, other: &dyn Subject) -> Option<bool> {
                let o = other.as_any().downcast_ref::<$wrapper<M, F, E>>()?;
                self.model.maybe_eq(&o.model)
            }
            fn as_any(&self) -> &dyn Any {
                self
            }
        }
    };
}
impl_subject!(Sub1, Array1, rows1, eq = yes);
impl_subject!(Sub2, Array2, rows2, eq = yes);

/// `PartialEq` where the model type defines it
pub trait MaybeEq {
    fn maybe_eq(&self, other: &Self) -> Option<bool>;
}
macro_rules! has_eq {
    ($($t:ty),* $(,)?) => { $( impl MaybeEq for $t { fn maybe_eq(&self, o: &Self) -> Option<bool> { Some(self == o) } } )* };
}
macro_rules! no_eq {
    ($($t:ty),* $(,)?) => { $( impl MaybeEq for $t { fn maybe_eq(&self, _o: &Self) -> Option<bool> { None } } )* };
}

use linfa_bayes::{GaussianNb, MultinomialNb};
use linfa_clustering::{GaussianMixtureModel, KMeans};
use linfa_elasticnet::{ElasticNet, MultiTaskElasticNet};
use linfa_ftrl::Ftrl;
use linfa_linear::{FittedIsotonicRegression, FittedLinearRegression, TweedieRegressor};
use linfa_logistic::{FittedLogisticRegression, MultiFittedLogisticRegression};
use linfa_nn::distance::{L1Dist, L2Dist};
use linfa_pls::{PlsCanonical, PlsRegression};
use linfa_reduction::Pca;
use linfa_svm::Svm;
use linfa_trees::DecisionTree;

has_eq!(
    KMeans<f64, L2Dist>,
    KMeans<f32, L2Dist>,
    KMeans<f64, L1Dist>,
    KMeans<f64, linfa_nn::distance::LInfDist>,
    KMeans<f64, linfa_nn::distance::LpDist<f64>>,
    GaussianMixtureModel<f64>,
    FittedLinearRegression<f64>,
    FittedLinearRegression<f32>,
    FittedIsotonicRegression<f64>,
    TweedieRegressor<f64>,
    FittedLogisticRegression<f64, usize>,
    FittedLogisticRegression<f64, String>,
    MultiFittedLogisticRegression<f64, usize>,
    MultiFittedLogisticRegression<f64, String>,
    Svm<f64, bool>,
    Svm<f64, Pr>,
    Svm<f64, f64>,
    Svm<f32, f32>,
    DecisionTree<f64, usize>,
    DecisionTree<f32, bool>,
    GaussianNb<f64, usize>,
    MultinomialNb<f64, usize>,
    Pca<f64>,
    PlsRegression<f64>,
    PlsCanonical<f64>,
);

no_eq!(ElasticNet<f64>, MultiTaskElasticNet<f64>, Ftrl<f64>);

fn f64c() -> Conv<f64> {
    std::sync::Arc::new(|v: &f64| *v)
}
fn f32c() -> Conv<f32> {
    std::sync::Arc::new(|v: &f32| *v as f64)
}
fn usizec() -> Conv<usize> {
    std::sync::Arc::new(|v: &usize| *v as f64)
}
fn boolc() -> Conv<bool> {
    std::sync::Arc::new(|v: &bool| if *v { 1.0 } else { 0.0 })
}
fn prc() -> Conv<Pr> {
    std::sync::Arc::new(|v: &Pr| **v as f64)
}
fn stringc(classes: Vec<String>) -> Conv<String> {
    std::sync::Arc::new(move |v: &String| {
        classes.iter().position(|c| c == v).map(|p| p as f64).unwrap_or(-1.0)
    })
}

macro_rules! sub1 {
    ($name:expr, $model:expr, $nfeat:expr, $disc:expr, $conv:expr, $f:ty) => {
        Box::new(Sub1 { name: $name.to_string(), model: $model, nfeat: $nfeat, discrete: $disc, conv: $conv, extra: None, _f: std::marker::PhantomData::<$f> }) as Box<dyn Subject>
    };
    ($name:expr, $model:expr, $nfeat:expr, $disc:expr, $conv:expr, $f:ty, $extra:expr) => {
        Box::new(Sub1 { name: $name.to_string(), model: $model, nfeat: $nfeat, discrete: $disc, conv: $conv, extra: Some(std::sync::Arc::new($extra)), _f: std::marker::PhantomData::<$f> }) as Box<dyn Subject>
    };
}
macro_rules! sub2 {
    ($name:expr, $model:expr, $nfeat:expr, $disc:expr, $conv:expr, $f:ty) => {
        Box::new(Sub2 { name: $name.to_string(), model: $model, nfeat: $nfeat, discrete: $disc, conv: $conv, extra: None, _f: std::marker::PhantomData::<$f> }) as Box<dyn Subject>
    };
    ($name:expr, $model:expr, $nfeat:expr, $disc:expr, $conv:expr, $f:ty, $extra:expr) => {
        Box::new(Sub2 { name: $name.to_string(), model: $model, nfeat: $nfeat, discrete: $disc, conv: $conv, extra: Some(std::sync::Arc::new($extra)), _f: std::marker::PhantomData::<$f> }) as Box<dyn Subject>
    };
}

// ------------------------------------------------------------------------------------------------
// data sets derived from a seed

pub struct Data {
    pub x: Array2<f64>,
    pub blob: Vec<usize>,
    pub yreg: Array1<f64>,
    pub yreg2: Array2<f64>,
    pub ybin: Array1<bool>,
    pub ycls: Array1<usize>,
    pub ypos: Array1<f64>,
    pub xcount: Array2<f64>,
}

pub fn make_data(seed: u64, n: usize, p: usize, f32exact: bool) -> Data {
    let mut rng = Rng::seed_from_u64(seed ^ 0x5eed_da7a);
    let k = 3;
    let (mut x, blob) = gen::blobs(&mut rng, n, p, k, 4.0, 1.0);
    if f32exact {
        x.mapv_inplace(|v| (v as f32) as f64);
    }
    let w: Vec<f64> = (0..p).map(|_| gen::normal(&mut rng)).collect();
    let w2: Vec<f64> = (0..p).map(|_| gen::normal(&mut rng)).collect();
    let lin = |i: usize, w: &Vec<f64>| -> f64 { (0..p).map(|j| w[j] * x[[i, j]]).sum::<f64>() };
    let rf = |v: f64| if f32exact { (v as f32) as f64 } else { v };
    let yreg = Array1::from_shape_fn(n, |i| rf(lin(i, &w) + 0.3 * gen::normal(&mut rng) + 1.5));
    let yreg2 = Array2::from_shape_fn((n, 2), |(i, c)| {
        rf(if c == 0 { lin(i, &w) } else { lin(i, &w2) - 2.0 } + 0.3 * gen::normal(&mut rng))
    });
    let ybin = Array1::from_shape_fn(n, |i| {
        let z = 0.8 * lin(i, &w) + 0.2;
        rng.gen::<f64>() < 1.0 / (1.0 + (-z).exp())
    });
    let ycls = Array1::from_shape_fn(n, |i| if rng.gen_bool(0.15) { rng.gen_range(0..k) } else { blob[i] });
    let ypos = Array1::from_shape_fn(n, |i| rf((0.2 * lin(i, &w)).exp() * (0.5 + rng.gen::<f64>())));
    let xcount = Array2::from_shape_fn((n, p), |(i, j)| {
        let lam = 1.0 + ((blob[i] + j) % 3) as f64 * 2.0;
        (lam * (0.3 + 1.4 * rng.gen::<f64>())).floor()
    });
    Data { x, blob, yreg, yreg2, ybin, ycls, ypos, xcount }
}

pub type Builder = fn(u64) -> Result<Box<dyn Subject>, String>;

fn es<E: std::fmt::Display>(e: E) -> String {
    format!("fit error: {e}")
}

macro_rules! xrng {
    ($seed:expr) => {
        rand_xoshiro::Xoshiro256Plus::seed_from_u64($seed)
    };
}

pub fn predictor_builders() -> Vec<(&'static str, Builder)> {
    let mut v: Vec<(&'static str, Builder)> = vec![];
    v.push(("kmeans-l2-f64", |seed| {
        let d = make_data(seed, 120, 3, false);
        let ds = DatasetBase::from(d.x.clone());
        let m = KMeans::params_with_rng(3, xrng!(42)).max_n_iterations(50).tolerance(1e-6).fit(&ds).map_err(es)?;
        Ok(sub1!("kmeans-l2-f64", m, 3, true, usizec(), f64, |m: &KMeans<f64, L2Dist>, x: &Array2<f64>| {
            let t: Array1<f64> = m.transform(x);
            // the single-observation calling form (one-dimensional record -> one label)
            let ix1: Vec<Vec<f64>> = x.outer_iter().map(|r| { let l: usize = m.predict(&r); vec![l as f64] }).collect();
            vec![("transform".to_string(), t.iter().map(|v| vec![*v]).collect()), ("=predict-single-observation-form".to_string(), ix1)]
        }))
    }));
    v.push(("kmeans-l1-f64-plusplus", |seed| {
        let d = make_data(seed, 100, 2, false);
        let ds = DatasetBase::from(d.x.clone());
        let m = KMeans::params_with(4, xrng!(7), L1Dist)
            .init_method(linfa_clustering::KMeansInit::KMeansPlusPlus)
            .n_runs(2)
            .max_n_iterations(40)
            .fit(&ds)
            .map_err(es)?;
        Ok(sub1!("kmeans-l1-f64-plusplus", m, 2, true, usizec(), f64))
    }));
    // metrics for which shortcuts valid under L1 / L2 (norm bounds, squared comparisons) do not hold
    v.push(("kmeans-linf-f64", |seed| {
        let d = make_data(seed, 100, 3, false);
        let m = KMeans::params_with(5, xrng!(3), linfa_nn::distance::LInfDist).max_n_iterations(20).fit(&DatasetBase::from(d.x.clone())).map_err(es)?;
        Ok(sub1!("kmeans-linf-f64", m, 3, true, usizec(), f64, |m: &KMeans<f64, linfa_nn::distance::LInfDist>, x: &Array2<f64>| {
            let ix1: Vec<Vec<f64>> = x.outer_iter().map(|r| { let l: usize = m.predict(&r); vec![l as f64] }).collect();
            vec![("=predict-single-observation-form".to_string(), ix1)]
        }))
    }));
    v.push(("kmeans-lp3-f64", |seed| {
        let d = make_data(seed, 100, 3, false);
        let m = KMeans::params_with(5, xrng!(3), linfa_nn::distance::LpDist(3.0)).max_n_iterations(20).fit(&DatasetBase::from(d.x.clone())).map_err(es)?;
        Ok(sub1!("kmeans-lp3-f64", m, 3, true, usizec(), f64, |m: &KMeans<f64, linfa_nn::distance::LpDist<f64>>, x: &Array2<f64>| {
            let ix1: Vec<Vec<f64>> = x.outer_iter().map(|r| { let l: usize = m.predict(&r); vec![l as f64] }).collect();
            vec![("=predict-single-observation-form".to_string(), ix1)]
        }))
    }));
    v.push(("kmeans-l2-f32", |seed| {
        let d = make_data(seed, 90, 3, true);
        let ds = DatasetBase::from(d.x.mapv(|v| v as f32));
        let m = KMeans::params_with_rng(3, xrng!(1)).max_n_iterations(30).fit(&ds).map_err(es)?;
        Ok(sub1!("kmeans-l2-f32", m, 3, true, usizec(), f32))
    }));
    v.push(("gmm-f64", |seed| {
        let d = make_data(seed, 150, 2, false);
        let ds = DatasetBase::from(d.x.clone());
        let m = GaussianMixtureModel::params_with_rng(3, xrng!(42)).n_runs(2).tolerance(1e-4).fit(&ds).map_err(es)?;
        Ok(sub1!("gmm-f64", m, 2, true, usizec(), f64, |m: &GaussianMixtureModel<f64>, x: &Array2<f64>| {
            vec![("predict_proba".to_string(), rows_of(&m.predict_proba(x)))]
        }))
    }));
    v.push(("ols-f64", |seed| {
        let d = make_data(seed, 60, 4, false);
        let ds = Dataset::new(d.x.clone(), d.yreg.clone());
        let m = linfa_linear::LinearRegression::new().fit(&ds).map_err(es)?;
        Ok(sub1!("ols-f64", m, 4, false, f64c(), f64))
    }));
    v.push(("ols-f32-nointercept", |seed| {
        let d = make_data(seed, 50, 3, true);
        let ds = Dataset::new(d.x.mapv(|v| v as f32), d.yreg.mapv(|v| v as f32));
        let m = linfa_linear::LinearRegression::new().with_intercept(false).fit(&ds).map_err(es)?;
        Ok(sub1!("ols-f32-nointercept", m, 3, false, f32c(), f32))
    }));
    v.push(("isotonic-f64", |seed| {
        // records drawn like the probe rows (most queries fall between two knots), response
        // increasing up to noise (many knots)
        let x = probe(seed ^ 0x150, 70, 1, false);
        let mut rng = Rng::seed_from_u64(seed ^ 0x150_70);
        let y = Array1::from_shape_fn(70, |i| 0.8 * x[[i, 0]] + 0.5 * gen::normal(&mut rng) + 1.5);
        let ds = Dataset::new(x, y);
        let m = linfa_linear::IsotonicRegression::new().fit(&ds).map_err(es)?;
        Ok(sub1!("isotonic-f64", m, 1, false, f64c(), f64))
    }));
    v.push(("tweedie-p0-identity", |seed| {
        let d = make_data(seed, 80, 3, false);
        let ds = Dataset::new(d.x.clone(), d.yreg.clone());
        let m = TweedieRegressor::params().power(0.).alpha(0.1).fit(&ds).map_err(es)?;
        Ok(sub1!("tweedie-p0-identity", m, 3, false, f64c(), f64))
    }));
    v.push(("tweedie-p2-log", |seed| {
        let d = make_data(seed, 80, 3, false);
        let ds = Dataset::new(&d.x / 4.0, d.ypos.clone());
        let m = TweedieRegressor::params().power(2.).alpha(0.5).max_iter(100).fit(&ds).map_err(es)?;
        Ok(sub1!("tweedie-p2-log", m, 3, false, f64c(), f64))
    }));
    v.push(("elasticnet-f64", |seed| {
        let d = make_data(seed, 70, 5, false);
        let ds = Dataset::new(d.x.clone(), d.yreg.clone());
        let m = ElasticNet::params().penalty(0.1).l1_ratio(0.5).fit(&ds).map_err(es)?;
        Ok(sub1!("elasticnet-f64", m, 5, false, f64c(), f64))
    }));
    v.push(("multitask-elasticnet-f64", |seed| {
        let d = make_data(seed, 70, 4, false);
        let ds = Dataset::new(d.x.clone(), d.yreg2.clone());
        let m = MultiTaskElasticNet::params().penalty(0.05).l1_ratio(0.3).fit(&ds).map_err(es)?;
        Ok(sub2!("multitask-elasticnet-f64", m, 4, false, f64c(), f64))
    }));
    v.push(("logistic-binary-usize", |seed| {
        let d = make_data(seed, 120, 3, false);
        let y = d.ybin.mapv(|b| if b { 7usize } else { 3usize });
        let ds = Dataset::new(d.x.clone(), y);
        let m = linfa_logistic::LogisticRegression::default().alpha(0.5).max_iterations(200).fit(&ds).map_err(es)?;
        Ok(sub1!("logistic-binary-usize", m, 3, true, usizec(), f64, |m: &FittedLogisticRegression<f64, usize>, x: &Array2<f64>| {
            vec![("predict_probabilities".to_string(), m.predict_probabilities(x).iter().map(|v| vec![*v]).collect())]
        }))
    }));
    v.push(("logistic-binary-threshold", |seed| {
        // configuration applied after fitting is part of the fitted instance
        let d = make_data(seed, 120, 3, false);
        let y = d.ybin.mapv(|b| if b { 1usize } else { 0usize });
        let ds = Dataset::new(d.x.clone(), y);
        let t = [0.05, 0.3, 0.8, 0.97][(seed % 4) as usize];
        let m = linfa_logistic::LogisticRegression::default().alpha(0.5).max_iterations(200).fit(&ds).map_err(es)?.set_threshold(t);
        Ok(sub1!("logistic-binary-threshold", m, 3, true, usizec(), f64))
    }));
    v.push(("logistic-binary-string", |seed| {
        let d = make_data(seed, 100, 2, false);
        let y = d.ybin.mapv(|b| if b { "dog".to_string() } else { "cat".to_string() });
        let ds = Dataset::new(d.x.clone(), y);
        let m = linfa_logistic::LogisticRegression::default().alpha(1.0).max_iterations(200).fit(&ds).map_err(es)?;
        Ok(sub1!("logistic-binary-string", m, 2, true, stringc(vec!["cat".into(), "dog".into()]), f64))
    }));
    // (an f32 binary logistic model is not part of the zoo: on some random datasets argmin's
    // More-Thuente line search does not terminate in single precision, which would hang the run)
    v.push(("logistic-multi-usize", |seed| {
        let d = make_data(seed, 150, 3, false);
        let ds = Dataset::new(d.x.clone(), d.ycls.clone());
        let m = linfa_logistic::MultiLogisticRegression::default().alpha(0.5).max_iterations(200).fit(&ds).map_err(es)?;
        Ok(sub1!("logistic-multi-usize", m, 3, true, usizec(), f64, |m: &MultiFittedLogisticRegression<f64, usize>, x: &Array2<f64>| {
            vec![("predict_probabilities".to_string(), rows_of(&m.predict_probabilities(x)))]
        }))
    }));
    v.push(("logistic-multi-string", |seed| {
        let d = make_data(seed, 120, 2, false);
        let names = ["ant", "bee", "cow"];
        let y = d.ycls.mapv(|c| names[c].to_string());
        let ds = Dataset::new(d.x.clone(), y);
        let m = linfa_logistic::MultiLogisticRegression::default().alpha(1.0).max_iterations(200).fit(&ds).map_err(es)?;
        Ok(sub1!("logistic-multi-string", m, 2, true, stringc(names.iter().map(|s| s.to_string()).collect()), f64))
    }));
    v.push(("svm-bool-gaussian", |seed| {
        let d = make_data(seed, 80, 2, false);
        let ds = Dataset::new(d.x.clone(), d.ybin.clone());
        let m = Svm::<f64, bool>::params().gaussian_kernel(5.0).pos_neg_weights(2.0, 1.0).eps(1e-5).fit(&ds).map_err(es)?;
        Ok(sub1!("svm-bool-gaussian", m, 2, true, boolc(), f64, |m: &Svm<f64, bool>, x: &Array2<f64>| {
            let ix1: Vec<Vec<f64>> = x.outer_iter().map(|r| { let l: bool = m.predict(r); vec![l as u8 as f64] }).collect();
            vec![("=predict-single-observation-form".to_string(), ix1)]
        }))
    }));
    v.push(("svm-pr-linear", |seed| {
        let d = make_data(seed, 80, 3, false);
        let ds = Dataset::new(d.x.clone(), d.ybin.clone());
        let m = Svm::<f64, Pr>::params().linear_kernel().pos_neg_weights(1.0, 1.0).eps(1e-5).fit(&ds).map_err(es)?;
        Ok(sub1!("svm-pr-linear", m, 3, false, prc(), f64, |m: &Svm<f64, Pr>, x: &Array2<f64>| {
            let ix1: Vec<Vec<f64>> = x.outer_iter().map(|r| { let l: Pr = m.predict(r); vec![*l as f64] }).collect();
            vec![("=predict-single-observation-form".to_string(), ix1)]
        }))
    }));
    v.push(("svm-regression-poly", |seed| {
        let d = make_data(seed, 60, 2, false);
        let ds = Dataset::new(d.x.clone(), d.yreg.clone());
        let m = Svm::<f64, f64>::params().polynomial_kernel(1.0, 2.0).c_svr(1.0, Some(0.1)).eps(1e-4).fit(&ds).map_err(es)?;
        Ok(sub1!("svm-regression-poly", m, 2, false, f64c(), f64, |m: &Svm<f64, f64>, x: &Array2<f64>| {
            let ix1: Vec<Vec<f64>> = x.outer_iter().map(|r| { let l: f64 = m.predict(r); vec![l] }).collect();
            vec![("=predict-single-observation-form".to_string(), ix1)]
        }))
    }));
    v.push(("svm-regression-f32-linear", |seed| {
        let d = make_data(seed, 60, 2, true);
        let ds = Dataset::new(d.x.mapv(|v| v as f32), d.yreg.mapv(|v| v as f32));
        let m = Svm::<f32, f32>::params().linear_kernel().c_svr(1.0, Some(0.1)).eps(1e-3).fit(&ds).map_err(es)?;
        Ok(sub1!("svm-regression-f32-linear", m, 2, false, f32c(), f32))
    }));
    v.push(("svm-one-class", |seed| {
        let d = make_data(seed, 70, 2, false);
        let ds = DatasetBase::from(d.x.clone());
        let m: Svm<f64, bool> = Svm::<f64, Pr>::params().gaussian_kernel(8.0).nu_weight(0.2).eps(1e-5).fit(&ds).map_err(es)?;
        Ok(sub1!("svm-one-class", m, 2, true, boolc(), f64))
    }));
    v.push(("tree-usize-gini", |seed| {
        let d = make_data(seed, 150, 4, false);
        let ds = Dataset::new(d.x.clone(), d.ycls.clone());
        let m = DecisionTree::params().max_depth(Some(5)).fit(&ds).map_err(es)?;
        Ok(sub1!("tree-usize-gini", m, 4, true, usizec(), f64))
    }));
    v.push(("tree-bool-entropy-f32", |seed| {
        let d = make_data(seed, 120, 3, true);
        let ds = Dataset::new(d.x.mapv(|v| v as f32), d.ybin.clone());
        let m = DecisionTree::params().split_quality(linfa_trees::SplitQuality::Entropy).max_depth(Some(4)).fit(&ds).map_err(es)?;
        Ok(sub1!("tree-bool-entropy-f32", m, 3, true, boolc(), f32))
    }));
    v.push(("gaussian-nb", |seed| {
        let d = make_data(seed, 120, 3, false);
        let ds = Dataset::new(d.x.clone(), d.ycls.clone());
        let m = GaussianNb::params().fit(&ds).map_err(es)?;
        Ok(sub1!("gaussian-nb", m, 3, true, usizec(), f64))
    }));
    v.push(("multinomial-nb", |seed| {
        let d = make_data(seed, 120, 4, false);
        let ds = Dataset::new(d.xcount.clone(), d.ycls.clone());
        let m = MultinomialNb::params().fit(&ds).map_err(es)?;
        Ok(sub1!("multinomial-nb", m, 4, true, usizec(), f64))
    }));
    v.push(("ftrl", |seed| {
        let d = make_data(seed, 120, 3, false);
        let ds = Dataset::new(d.x.clone(), d.ybin.clone());
        let params = Ftrl::params().alpha(0.1).beta(1.0).l1_ratio(0.01).l2_ratio(0.5);
        let m = params.fit_with(None, &ds).map_err(es)?;
        Ok(sub1!("ftrl", m, 3, false, prc(), f64))
    }));
    v.push(("pca-f64", |seed| {
        let d = make_data(seed, 90, 8, false);
        let ds = DatasetBase::from(d.x.clone());
        let m = Pca::params(2).fit(&ds).map_err(es)?;
        Ok(sub2!("pca-f64", m, 8, false, f64c(), f64, |m: &Pca<f64>, x: &Array2<f64>| {
            let z: Array2<f64> = m.predict(x);
            vec![("inverse_transform(predict)".to_string(), rows_of(&m.inverse_transform(z)))]
        }))
    }));
    v.push(("pca-whitened-12-features", |seed| {
        let d = make_data(seed, 60, 12, false);
        let ds = DatasetBase::from(d.x.clone());
        let m = Pca::params(3).whiten(true).fit(&ds).map_err(es)?;
        Ok(sub2!("pca-whitened-12-features", m, 12, false, f64c(), f64, |m: &Pca<f64>, x: &Array2<f64>| {
            let z: Array2<f64> = m.predict(x);
            vec![("inverse_transform(predict)".to_string(), rows_of(&m.inverse_transform(z)))]
        }))
    }));
    v.push(("pls-regression", |seed| {
        let d = make_data(seed, 80, 5, false);
        let ds = Dataset::new(d.x.clone(), d.yreg2.clone());
        let m = PlsRegression::params(2).fit(&ds).map_err(es)?;
        Ok(sub2!("pls-regression", m, 5, false, f64c(), f64))
    }));
    v.push(("pls-canonical", |seed| {
        let d = make_data(seed, 80, 5, false);
        let ds = Dataset::new(d.x.clone(), d.yreg2.clone());
        let m = PlsCanonical::params(2).fit(&ds).map_err(es)?;
        Ok(sub2!("pls-canonical", m, 5, false, f64c(), f64))
    }));
    v
}

pub fn probe(seed: u64, n: usize, p: usize, counts: bool) -> Array2<f64> {
    let mut rng = Rng::seed_from_u64(seed ^ 0x9e37_79b9);
    if counts {
        Array2::from_shape_fn((n, p), |_| rng.gen_range(0..9) as f64)
    } else {
        let mut x = gen::normal_matrix(&mut rng, n, p) * 3.0;
        x.mapv_inplace(|v| (v as f32) as f64);
        x
    }
}

pub fn row_subset(x: &Array2<f64>, idx: &[usize]) -> Array2<f64> {
    x.select(Axis(0), idx)
}

#[allow(unused)]
fn _unused() {
    let _ = ALL_LAYOUTS;
    let _: Option<&dyn ParamGuard<Checked = (), Error = linfa::Error>> = None;
}
