//! shared workload generators
use crate::fw::Rng;
use ndarray::{Array1, Array2};
use rand::Rng as _;

pub fn uniform(rng: &mut Rng, lo: f64, hi: f64) -> f64 {
    lo + (hi - lo) * rng.gen::<f64>()
}

/// standard normal via Box-Muller
pub fn normal(rng: &mut Rng) -> f64 {
    let u1: f64 = 1.0 - rng.gen::<f64>();
    let u2: f64 = rng.gen::<f64>();
    (-2.0 * u1.ln()).sqrt() * (2.0 * std::f64::consts::PI * u2).cos()
}

pub fn normal_matrix(rng: &mut Rng, n: usize, p: usize) -> Array2<f64> {
    Array2::from_shape_fn((n, p), |_| normal(rng))
}

pub fn uniform_matrix(rng: &mut Rng, n: usize, p: usize, lo: f64, hi: f64) -> Array2<f64> {
    Array2::from_shape_fn((n, p), |_| uniform(rng, lo, hi))
}

pub fn normal_vec(rng: &mut Rng, n: usize) -> Array1<f64> {
    Array1::from_shape_fn(n, |_| normal(rng))
}

pub fn log_uniform(rng: &mut Rng, lo: f64, hi: f64) -> f64 {
    (uniform(rng, lo.ln(), hi.ln())).exp()
}

pub fn pick<'a, T>(rng: &mut Rng, xs: &'a [T]) -> &'a T {
    &xs[rng.gen_range(0..xs.len())]
}

/// gaussian blobs: returns (records, blob id per row)
pub fn blobs(
    rng: &mut Rng,
    n: usize,
    p: usize,
    nblobs: usize,
    spread: f64,
    sigma: f64,
) -> (Array2<f64>, Vec<usize>) {
    let centers = Array2::from_shape_fn((nblobs, p), |_| uniform(rng, -spread, spread));
    let mut ids = Vec::with_capacity(n);
    let mut x = Array2::zeros((n, p));
    for i in 0..n {
        let b = rng.gen_range(0..nblobs);
        ids.push(b);
        for j in 0..p {
            x[[i, j]] = centers[[b, j]] + sigma * normal(rng);
        }
    }
    (x, ids)
}

pub fn permutation(rng: &mut Rng, n: usize) -> Vec<usize> {
    use rand::seq::SliceRandom;
    let mut v: Vec<usize> = (0..n).collect();
    v.shuffle(rng);
    v
}
