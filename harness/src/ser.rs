//! Serialisable values of every kind (parameter sets, fitted transformers, results, selectors,
//! errors) behind one object-safe interface for C19 (and digests for C20).
use crate::zoo::{self, make_data};
use linfa::traits::*;
use linfa::{Dataset, DatasetBase, ParamGuard};
use ndarray::{array, Array1, Array2};
use rand::SeedableRng;
use serde::{de::DeserializeOwned, Serialize};
use std::sync::Arc;

/// canonical text of a float: bit pattern, so that comparison is exact and NaN-safe
pub fn fb(v: f64) -> String {
    format!("{:016x}", v.to_bits())
}
pub fn fbs<'a, I: IntoIterator<Item = &'a f64>>(it: I) -> String {
    it.into_iter().map(|v| fb(*v)).collect::<Vec<_>>().join(",")
}
pub fn fbs32<'a, I: IntoIterator<Item = &'a f32>>(it: I) -> String {
    it.into_iter().map(|v| format!("{:08x}", v.to_bits())).collect::<Vec<_>>().join(",")
}

pub type Behaviour = Vec<(String, String)>;

pub trait SerSubject {
    fn name(&self) -> String;
    fn json(&self) -> Result<serde_json::Value, String>;
    /// observable behaviour of the value on fixed inputs, as exact canonical strings
    fn behaviour(&self) -> Result<Behaviour, String>;
    /// fmt: "bincode" | "json" | "json-pretty"
    fn roundtrip(&self, fmt: &str) -> Result<Box<dyn SerSubject>, String>;
    fn same_as(&self, other: &dyn SerSubject) -> Option<bool>;
    fn as_any(&self) -> &dyn std::any::Any;
    /// values containing non-finite floats cannot go through JSON
    fn json_capable(&self) -> bool {
        true
    }
    /// the JSON image is canonical (no hash-ordered sequences)
    fn ordered_image(&self) -> bool {
        true
    }
}

pub struct SerAny<T> {
    pub name: String,
    pub value: T,
    pub behave: Arc<dyn Fn(&T) -> Result<Behaviour, String>>,
    pub eq: Option<fn(&T, &T) -> bool>,
    /// false when the serde image contains hash-ordered sequences (HashSet), which legitimately reorder
    pub ordered_image: bool,
}

impl<T: Serialize + DeserializeOwned + 'static> SerSubject for SerAny<T> {
    fn name(&self) -> String {
        self.name.clone()
    }
    fn json(&self) -> Result<serde_json::Value, String> {
        serde_json::to_value(&self.value).map_err(|e| format!("{e}"))
    }
    fn behaviour(&self) -> Result<Behaviour, String> {
        match crate::fw::guarded(|| (self.behave)(&self.value)) {
            Ok(r) => r,
            Err(p) => Err(format!("linfa_panic: {p}")),
        }
    }
    fn roundtrip(&self, fmt: &str) -> Result<Box<dyn SerSubject>, String> {
        let value: T = match fmt {
            "bincode" => {
                let b = bincode::serialize(&self.value).map_err(|e| format!("serialize: {e}"))?;
                bincode::deserialize(&b).map_err(|e| format!("deserialize: {e}"))?
            }
            "json" => {
                let s = serde_json::to_string(&self.value).map_err(|e| format!("serialize: {e}"))?;
                serde_json::from_str(&s).map_err(|e| format!("deserialize: {e}"))?
            }
            _ => {
                let s = serde_json::to_string_pretty(&self.value).map_err(|e| format!("serialize: {e}"))?;
                serde_json::from_str(&s).map_err(|e| format!("deserialize: {e}"))?
            }
        };
        Ok(Box::new(SerAny { name: self.name.clone(), value, behave: self.behave.clone(), eq: self.eq, ordered_image: self.ordered_image }))
    }
    fn same_as(&self, other: &dyn SerSubject) -> Option<bool> {
        let o = other.as_any().downcast_ref::<SerAny<T>>()?;
        self.eq.map(|f| f(&self.value, &o.value))
    }
    fn as_any(&self) -> &dyn std::any::Any {
        self
    }
    fn ordered_image(&self) -> bool {
        self.ordered_image
    }
}

/// adapter: a zoo predictor as a serialisable subject (behaviour = predictions + extras on a probe)
pub struct PredictorSer {
    pub inner: Box<dyn zoo::Subject>,
    pub probe: Array2<f64>,
}
impl SerSubject for PredictorSer {
    fn name(&self) -> String {
        format!("model:{}", self.inner.name())
    }
    fn json(&self) -> Result<serde_json::Value, String> {
        self.inner.json()
    }
    fn behaviour(&self) -> Result<Behaviour, String> {
        let mut out = vec![];
        let pr = self.inner.predict(&self.probe, zoo::Form::RefArray, zoo::Layout::C)?;
        out.push(("predict".to_string(), pr.rows.iter().map(|r| fbs(r.iter())).collect::<Vec<_>>().join(";")));
        for (n, rows) in self.inner.extra(&self.probe) {
            out.push((n, rows.iter().map(|r| fbs(r.iter())).collect::<Vec<_>>().join(";")));
        }
        Ok(out)
    }
    fn roundtrip(&self, fmt: &str) -> Result<Box<dyn SerSubject>, String> {
        let inner = if fmt == "bincode" { self.inner.roundtrip_bincode()? } else { self.inner.roundtrip_json()? };
        Ok(Box::new(PredictorSer { inner, probe: self.probe.clone() }))
    }
    fn same_as(&self, other: &dyn SerSubject) -> Option<bool> {
        let o = other.as_any().downcast_ref::<PredictorSer>()?;
        self.inner.same_as(o.inner.as_ref())
    }
    fn as_any(&self) -> &dyn std::any::Any {
        self
    }
}

pub type SerBuilder = fn(u64) -> Result<Box<dyn SerSubject>, String>;

fn es<E: std::fmt::Display>(e: E) -> String {
    format!("fit error: {e}")
}

macro_rules! ser {
    ($name:expr, $value:expr, eq, $behave:expr) => {
        Ok(Box::new(SerAny { name: $name.to_string(), value: $value, behave: Arc::new($behave), eq: Some(|a, b| a == b), ordered_image: true }) as Box<dyn SerSubject>)
    };
    ($name:expr, $value:expr, noeq, $behave:expr) => {
        Ok(Box::new(SerAny { name: $name.to_string(), value: $value, behave: Arc::new($behave), eq: None, ordered_image: true }) as Box<dyn SerSubject>)
    };
    ($name:expr, $value:expr, unordered, $behave:expr) => {
        Ok(Box::new(SerAny { name: $name.to_string(), value: $value, behave: Arc::new($behave), eq: None, ordered_image: false }) as Box<dyn SerSubject>)
    };
}

fn verdict<T, E: std::fmt::Display>(r: Result<T, E>) -> String {
    match r {
        Ok(_) => "ok".to_string(),
        Err(e) => format!("err: {e}"),
    }
}

fn arr2(a: &Array2<f64>) -> String {
    format!("{:?}|{}", a.dim(), fbs(a.iter()))
}
fn arr1(a: &Array1<f64>) -> String {
    fbs(a.iter())
}

const DOCS: [&str; 6] = [
    "the quick brown fox jumps over the lazy dog",
    "The Dog barks; the fox runs away!",
    "one fish two fish red fish blue fish",
    "",
    "lazy lazy lazy dog",
    "caf\u{65}\u{301} na\u{ef}ve fox",
];
const UNSEEN: [&str; 3] = ["a quick red dog", "fish and fox and unknownword", ""];

fn custom_tokenizer(s: &str) -> Vec<&str> {
    s.split(|c: char| c == ' ' || c == ';').filter(|t| !t.is_empty()).collect()
}

pub fn other_builders() -> Vec<(&'static str, SerBuilder)> {
    use linfa_clustering::{Dbscan, Optics};
    use linfa_nn::{distance::*, BallTree, CommonNearestNeighbour, KdTree, LinearSearch, NearestNeighbour};
    use linfa_preprocessing::linear_scaling::LinearScaler;
    use linfa_preprocessing::norm_scaling::NormScaler;
    use linfa_preprocessing::tf_idf_vectorization::{TfIdfMethod, TfIdfVectorizer};
    use linfa_preprocessing::whitening::Whitener;
    use linfa_preprocessing::CountVectorizer;
    let mut v: Vec<(&'static str, SerBuilder)> = vec![];

    // ---- preprocessing
    macro_rules! scaler {
        ($name:expr, $params:expr) => {
            v.push(($name, |seed| {
                let d = make_data(seed, 40, 3, false);
                let ds = DatasetBase::from(d.x.clone());
                let m = $params.fit(&ds).map_err(es)?;
                ser!($name, m, eq, move |m: &LinearScaler<f64>| {
                    let probe = zoo::probe(11, 12, 3, false);
                    Ok(vec![
                        ("offsets".into(), arr1(m.offsets())),
                        ("scales".into(), arr1(m.scales())),
                        ("transform".into(), arr2(&m.transform(probe))),
                    ])
                })
            }));
        };
    }
    scaler!("scaler-standard", LinearScaler::<f64>::standard());
    scaler!("scaler-standard-no-mean", LinearScaler::<f64>::standard_no_mean());
    scaler!("scaler-min-max-range", LinearScaler::<f64>::min_max_range(-2.0, 5.0));
    scaler!("scaler-max-abs", LinearScaler::<f64>::max_abs());
    v.push(("scaler-params", |_seed| {
        ser!("scaler-params", LinearScaler::<f64>::min_max_range(0.5, 3.0), eq, |p: &linfa_preprocessing::linear_scaling::LinearScalerParams<f64>| {
            let d = make_data(3, 30, 2, false);
            let m = p.fit(&DatasetBase::from(d.x.clone())).map_err(es)?;
            Ok(vec![("refit-offsets".into(), arr1(m.offsets())), ("refit-scales".into(), arr1(m.scales()))])
        })
    }));
    macro_rules! norm {
        ($name:expr, $v:expr) => {
            v.push(($name, |_seed| {
                ser!($name, $v, eq, |m: &NormScaler| {
                    let probe = zoo::probe(5, 10, 3, false);
                    Ok(vec![("transform".into(), arr2(&m.transform(probe)))])
                })
            }));
        };
    }
    norm!("norm-l1", NormScaler::l1());
    norm!("norm-l2", NormScaler::l2());
    norm!("norm-max", NormScaler::max());
    macro_rules! whitener {
        ($name:expr, $w:expr) => {
            v.push(($name, |seed| {
                let d = make_data(seed, 60, 3, false);
                let m = $w.fit(&DatasetBase::from(d.x.clone())).map_err(es)?;
                ser!($name, m, eq, |m: &linfa_preprocessing::whitening::FittedWhitener<f64>| {
                    let probe = zoo::probe(7, 10, 3, false);
                    Ok(vec![
                        ("mean".into(), fbs(m.mean().iter())),
                        ("matrix".into(), arr2(&m.transformation_matrix().to_owned())),
                        ("transform".into(), arr2(&m.transform(probe))),
                    ])
                })
            }));
        };
    }
    whitener!("whitener-pca", Whitener::pca());
    whitener!("whitener-zca", Whitener::zca());
    whitener!("whitener-cholesky", Whitener::cholesky());
    v.push(("whitener-params", |_| {
        ser!("whitener-params", Whitener::zca(), eq, |p: &Whitener| {
            let d = make_data(2, 40, 2, false);
            let m = p.fit(&DatasetBase::from(d.x.clone())).map_err(es)?;
            Ok(vec![("refit-matrix".into(), arr2(&m.transformation_matrix().to_owned()))])
        })
    }));

    // ---- vectorisers
    fn vec_behaviour(m: &CountVectorizer) -> Result<Behaviour, String> {
        let mut out = vec![];
        let mut vocab: Vec<(String, usize)> = m.vocabulary().iter().cloned().enumerate().map(|(i, w)| (w, i)).collect();
        vocab.sort();
        out.push(("nentries".into(), format!("{}", m.nentries())));
        for (tag, docs) in [("train", &DOCS[..]), ("unseen", &UNSEEN[..])] {
            let arr = Array1::from(docs.to_vec());
            match m.transform(&arr) {
                Ok(t) => {
                    let dense = t.to_dense();
                    // word -> column map, so that hash-ordered vocabularies compare equal
                    let mut cells = vec![];
                    for (w, j) in &vocab {
                        let col: Vec<String> = (0..dense.nrows()).map(|d| format!("{}", dense[[d, *j]])).collect();
                        cells.push(format!("{w}={}", col.join(",")));
                    }
                    out.push((format!("transform-{tag}"), cells.join(";")));
                }
                Err(e) => out.push((format!("transform-{tag}"), format!("err: {e}"))),
            }
        }
        Ok(out)
    }
    v.push(("count-vectorizer-regex", |_| {
        let m = CountVectorizer::params().n_gram_range(1, 2).document_frequency(0.0, 0.9).fit(&Array1::from(DOCS.to_vec())).map_err(es)?;
        ser!("count-vectorizer-regex", m, unordered, vec_behaviour)
    }));
    v.push(("count-vectorizer-stopwords-cap", |_| {
        let m = CountVectorizer::params().stopwords(&["the", "over"]).max_features(Some(6)).normalize(true).fit(&Array1::from(DOCS.to_vec())).map_err(es)?;
        ser!("count-vectorizer-stopwords-cap", m, unordered, vec_behaviour)
    }));
    v.push(("count-vectorizer-params", |_| {
        let p = CountVectorizer::params().n_gram_range(1, 3).document_frequency(0.1, 0.8).convert_to_lowercase(false).stopwords(&["fish"]);
        ser!("count-vectorizer-params", p, unordered, |p: &_| {
            let mut out = vec![("check".to_string(), verdict(p.check_ref()))];
            let m = p.fit(&Array1::from(DOCS.to_vec())).map_err(es)?;
            out.extend(vec_behaviour(&m)?.into_iter().map(|(k, v)| (format!("refit-{k}"), v)));
            Ok(out)
        })
    }));
    v.push(("count-vectorizer-params-invalid", |_| {
        let p = CountVectorizer::params().n_gram_range(3, 1);
        ser!("count-vectorizer-params-invalid", p, noeq, |p: &_| {
            Ok(vec![("check".to_string(), verdict(p.check_ref()))])
        })
    }));
    v.push(("count-vectorizer-large-regex", |_| {
        // a split expression whose compiled program is large: restoring must be able to rebuild it
        use linfa_preprocessing::Tokenizer;
        let m = CountVectorizer::params().tokenizer(Tokenizer::Regex(r"\b\w{2,300}\b".to_string())).fit(&Array1::from(DOCS.to_vec())).map_err(es)?;
        ser!("count-vectorizer-large-regex", m, unordered, vec_behaviour)
    }));
    v.push(("tfidf-vectorizer", |_| {
        let m = TfIdfVectorizer::default().n_gram_range(1, 2).fit(&Array1::from(DOCS.to_vec())).map_err(es)?;
        ser!("tfidf-vectorizer", m, unordered, |m: &linfa_preprocessing::tf_idf_vectorization::FittedTfIdfVectorizer| {
            let mut out = vec![];
            let mut vocab: Vec<(String, usize)> = m.vocabulary().iter().cloned().enumerate().map(|(i, w)| (w, i)).collect();
            vocab.sort();
            for (tag, docs) in [("train", &DOCS[..]), ("unseen", &UNSEEN[..])] {
                let arr = Array1::from(docs.to_vec());
                let t = m.transform(&arr).map_err(es)?.to_dense();
                let mut cells = vec![];
                for (w, j) in &vocab {
                    let col: Vec<String> = (0..t.nrows()).map(|d| fb(t[[d, *j]])).collect();
                    cells.push(format!("{w}={}", col.join(",")));
                }
                out.push((format!("transform-{tag}"), cells.join(";")));
            }
            Ok(out)
        })
    }));

    // ---- nearest neighbour selectors and metrics
    fn nn_behaviour<N: NearestNeighbour>(n: &N) -> Result<Behaviour, String> {
        let pts = zoo::probe(21, 30, 2, false);
        let idx = n.from_batch(&pts, L2Dist).map_err(es)?;
        let q = array![0.3, -0.2];
        let knn = idx.k_nearest(q.view(), 4).map_err(es)?;
        let rng = idx.within_range(q.view(), 2.5).map_err(es)?;
        let mut r: Vec<usize> = rng.iter().map(|(_, i)| *i).collect();
        r.sort();
        Ok(vec![
            ("k_nearest".into(), knn.iter().map(|(_, i)| i.to_string()).collect::<Vec<_>>().join(",")),
            ("within_range".into(), r.iter().map(|i| i.to_string()).collect::<Vec<_>>().join(",")),
        ])
    }
    v.push(("nn-linear", |_| ser!("nn-linear", LinearSearch::new(), eq, nn_behaviour::<LinearSearch>)));
    v.push(("nn-kdtree", |_| ser!("nn-kdtree", KdTree::new(), eq, nn_behaviour::<KdTree>)));
    v.push(("nn-balltree", |_| ser!("nn-balltree", BallTree::new(), eq, nn_behaviour::<BallTree>)));
    v.push(("nn-common-kd", |_| ser!("nn-common-kd", CommonNearestNeighbour::KdTree, eq, nn_behaviour::<CommonNearestNeighbour>)));
    v.push(("nn-common-ball", |_| ser!("nn-common-ball", CommonNearestNeighbour::BallTree, eq, nn_behaviour::<CommonNearestNeighbour>)));
    v.push(("nn-common-linear", |_| ser!("nn-common-linear", CommonNearestNeighbour::LinearSearch, eq, nn_behaviour::<CommonNearestNeighbour>)));
    fn dist_behaviour<D: Distance<f64>>(d: &D) -> Result<Behaviour, String> {
        let a = array![0.5, -1.25, 3.0];
        let b = array![-2.0, 0.75, 1.5];
        Ok(vec![("distance".into(), fb(d.distance(a.view(), b.view()))), ("rdistance".into(), fb(d.rdistance(a.view(), b.view())))])
    }
    v.push(("dist-l1", |_| ser!("dist-l1", L1Dist, eq, dist_behaviour::<L1Dist>)));
    v.push(("dist-l2", |_| ser!("dist-l2", L2Dist, eq, dist_behaviour::<L2Dist>)));
    v.push(("dist-linf", |_| ser!("dist-linf", LInfDist, eq, dist_behaviour::<LInfDist>)));
    v.push(("dist-lp", |_| ser!("dist-lp", LpDist(2.5f64), eq, dist_behaviour::<LpDist<f64>>)));
    // every exponent the (public tuple) constructor accepts and the parameter checks let through
    v.push(("dist-lp-variants", |seed| {
        let e = [0.5f64, 1.0, 2.0, 3.0, 0.25, 50.0, 1e-3, -1.0][(seed % 8) as usize];
        ser!("dist-lp-variants", LpDist(e), eq, dist_behaviour::<LpDist<f64>>)
    }));
    v.push(("kmeans-model-lp-variants", |seed| {
        let e = [0.5f64, 1.0, 2.0, 0.25][(seed % 4) as usize];
        let d = make_data(3, 60, 2, false);
        let m = linfa_clustering::KMeans::params_with(2, rand_xoshiro::Xoshiro256Plus::seed_from_u64(5), LpDist(e)).max_n_iterations(5).fit(&DatasetBase::from(d.x.clone())).map_err(es)?;
        ser!("kmeans-model-lp-variants", m, eq, |m: &linfa_clustering::KMeans<f64, LpDist<f64>>| {
            let q = make_data(9, 12, 2, false).x;
            let l: Array1<usize> = m.predict(&q);
            Ok(vec![("centroids".into(), arr2(m.centroids())), ("predict".into(), format!("{:?}", l.to_vec()))])
        })
    }));

    // ---- clustering parameters and results
    v.push(("dbscan-valid-params", |_| {
        let p = Dbscan::params(3).tolerance(1.5).check().map_err(es)?;
        ser!("dbscan-valid-params", p, eq, |p: &linfa_clustering::DbscanValidParams<f64, L2Dist, CommonNearestNeighbour>| {
            let d = make_data(4, 60, 2, false);
            let labels = p.transform(&d.x);
            Ok(vec![("labels".into(), labels.iter().map(|l| format!("{l:?}")).collect::<Vec<_>>().join(","))])
        })
    }));
    v.push(("optics-params", |_| {
        let p = Optics::params(3).tolerance(2.0);
        ser!("optics-params", p, eq, |p: &linfa_clustering::OpticsParams<f64, L2Dist, CommonNearestNeighbour>| {
            let d = make_data(4, 50, 2, false);
            let mut out = vec![("check".to_string(), verdict(p.check_ref()))];
            let a = p.transform(d.x.view()).map_err(es)?;
            out.push(("analysis".into(), a.iter().map(|s| format!("{}:{:?}:{:?}", s.index(), s.core_distance().map(fb), s.reachability_distance().map(fb))).collect::<Vec<_>>().join(",")));
            Ok(out)
        })
    }));
    v.push(("optics-params-invalid", |_| {
        let p = Optics::params::<f64>(1).tolerance(-1.0);
        ser!("optics-params-invalid", p, eq, |p: &linfa_clustering::OpticsParams<f64, L2Dist, CommonNearestNeighbour>| {
            Ok(vec![("check".to_string(), verdict(p.check_ref()))])
        })
    }));
    v.push(("optics-analysis", |seed| {
        let d = make_data(seed, 50, 2, false);
        let a = Optics::params(3).tolerance(2.0).transform(d.x.view()).map_err(es)?;
        ser!("optics-analysis", a, eq, |a: &linfa_clustering::OpticsAnalysis<f64>| {
            Ok(vec![("samples".into(), a.iter().map(|s| format!("{}:{:?}:{:?}", s.index(), s.core_distance().map(fb), s.reachability_distance().map(fb))).collect::<Vec<_>>().join(","))])
        })
    }));

    // ---- supervised parameter sets: validation verdict and refit
    v.push(("elasticnet-valid-params", |_| {
        let p = linfa_elasticnet::ElasticNet::<f64>::params().penalty(0.3).l1_ratio(0.7).tolerance(1e-6).check().map_err(es)?;
        ser!("elasticnet-valid-params", p, eq, |p: &linfa_elasticnet::ElasticNetValidParams<f64>| {
            let d = make_data(5, 50, 4, false);
            let m = p.fit(&Dataset::new(d.x.clone(), d.yreg.clone())).map_err(es)?;
            Ok(vec![("refit-hyperplane".into(), arr1(&m.hyperplane().to_owned())), ("refit-intercept".into(), fb(m.intercept()))])
        })
    }));
    v.push(("logistic-params", |_| {
        let p = linfa_logistic::LogisticRegression::<f64>::default().alpha(0.7).gradient_tolerance(1e-6).max_iterations(150).initial_params(array![0.1, -0.2, 0.3, 0.0]);
        ser!("logistic-params", p, eq, |p: &linfa_logistic::LogisticRegression<f64>| {
            let d = make_data(6, 80, 3, false);
            let mut out = vec![("check".to_string(), verdict(p.check_ref()))];
            let m = p.fit(&Dataset::new(d.x.clone(), d.ybin.clone())).map_err(es)?;
            out.push(("refit-params".into(), arr1(m.params())));
            out.push(("refit-intercept".into(), fb(m.intercept())));
            Ok(out)
        })
    }));
    v.push(("logistic-params-invalid", |_| {
        let p = linfa_logistic::LogisticRegression::<f64>::default().alpha(-1.0);
        ser!("logistic-params-invalid", p, eq, |p: &linfa_logistic::LogisticRegression<f64>| Ok(vec![("check".to_string(), verdict(p.check_ref()))]))
    }));
    v.push(("tweedie-valid-params", |_| {
        let p = linfa_linear::TweedieRegressor::<f64>::params().power(0.0).alpha(0.2).check().map_err(es)?;
        ser!("tweedie-valid-params", p, eq, |p: &linfa_linear::TweedieRegressorValidParams<f64>| {
            let d = make_data(7, 50, 3, false);
            let m = p.fit(&Dataset::new(d.x.clone(), d.yreg.clone())).map_err(es)?;
            Ok(vec![("refit-coef".into(), arr1(&m.coef)), ("refit-intercept".into(), fb(m.intercept))])
        })
    }));
    v.push(("tree-params", |_| {
        let p = linfa_trees::DecisionTree::<f64, usize>::params().max_depth(Some(3)).min_weight_leaf(2.0).min_impurity_decrease(1e-4);
        ser!("tree-params", p, eq, |p: &linfa_trees::DecisionTreeParams<f64, usize>| {
            let d = make_data(8, 80, 3, false);
            let mut out = vec![("check".to_string(), verdict(p.check_ref()))];
            let m = p.fit(&Dataset::new(d.x.clone(), d.ycls.clone())).map_err(es)?;
            let probe = zoo::probe(3, 20, 3, false);
            let y: Array1<usize> = m.predict(&probe);
            out.push(("refit-predict".into(), y.iter().map(|v| v.to_string()).collect::<Vec<_>>().join(",")));
            out.push(("refit-depth-leaves".into(), format!("{}/{}", m.max_depth(), m.num_leaves())));
            Ok(out)
        })
    }));
    v.push(("tree-params-invalid", |_| {
        let p = linfa_trees::DecisionTree::<f64, usize>::params().min_impurity_decrease(-1.0);
        ser!("tree-params-invalid", p, eq, |p: &linfa_trees::DecisionTreeParams<f64, usize>| Ok(vec![("check".to_string(), verdict(p.check_ref()))]))
    }));
    v.push(("gaussian-nb-valid-params", |_| {
        let p = linfa_bayes::GaussianNb::<f64, usize>::params().var_smoothing(1e-5).check().map_err(es)?;
        ser!("gaussian-nb-valid-params", p, eq, |p: &linfa_bayes::GaussianNbValidParams<f64, usize>| {
            let d = make_data(9, 60, 3, false);
            let m = p.fit(&Dataset::new(d.x.clone(), d.ycls.clone())).map_err(es)?;
            let y: Array1<usize> = m.predict(&zoo::probe(2, 15, 3, false));
            Ok(vec![("refit-predict".into(), y.iter().map(|v| v.to_string()).collect::<Vec<_>>().join(","))])
        })
    }));
    v.push(("multinomial-nb-valid-params", |_| {
        let p = linfa_bayes::MultinomialNb::<f64, usize>::params().alpha(0.5).check().map_err(es)?;
        ser!("multinomial-nb-valid-params", p, eq, |p: &linfa_bayes::MultinomialNbValidParams<f64, usize>| {
            let d = make_data(9, 60, 3, false);
            let m = p.fit(&Dataset::new(d.xcount.clone(), d.ycls.clone())).map_err(es)?;
            let y: Array1<usize> = m.predict(&zoo::probe(2, 15, 3, true));
            Ok(vec![("refit-predict".into(), y.iter().map(|v| v.to_string()).collect::<Vec<_>>().join(","))])
        })
    }));
    v.push(("pca-params", |_| {
        ser!("pca-params", linfa_reduction::Pca::params(2).whiten(true), eq, |p: &linfa_reduction::PcaParams| {
            let d = make_data(10, 60, 6, false);
            let m = p.fit(&DatasetBase::from(d.x.clone())).map_err(es)?;
            Ok(vec![("refit-singular-values".into(), arr1(m.singular_values())), ("refit-components".into(), arr2(m.components()))])
        })
    }));
    v.push(("fastica-valid-params", |_| {
        let p = linfa_ica::fast_ica::FastIca::<f64>::params().ncomponents(2).random_state(7).gfunc(linfa_ica::fast_ica::GFunc::Exp).check().map_err(es)?;
        ser!("fastica-valid-params", p, eq, |p: &linfa_ica::hyperparams::FastIcaValidParams<f64>| {
            let d = make_data(12, 120, 2, false);
            let m = p.fit(&DatasetBase::from(d.x.clone())).map_err(es)?;
            let y: Array2<f64> = m.predict(&zoo::probe(4, 8, 2, false));
            Ok(vec![("refit-predict".into(), arr2(&y))])
        })
    }));
    v.push(("fastica-model", |seed| {
        let d = make_data(seed, 150, 3, false);
        let m = linfa_ica::fast_ica::FastIca::<f64>::params().ncomponents(2).random_state(3).fit(&DatasetBase::from(d.x.clone())).map_err(es)?;
        ser!("fastica-model", m, eq, |m: &linfa_ica::fast_ica::FastIca<f64>| {
            let y: Array2<f64> = m.predict(&zoo::probe(4, 8, 3, false));
            Ok(vec![("predict".into(), arr2(&y))])
        })
    }));

    // ---- parameter sets carrying a random number generator
    v.push(("kmeans-params", |_| {
        let p = linfa_clustering::KMeans::<f64, L2Dist>::params_with_rng(3, rand_xoshiro::Xoshiro256Plus::seed_from_u64(9)).n_runs(2).max_n_iterations(20).tolerance(1e-5);
        ser!("kmeans-params", p, eq, |p: &linfa_clustering::KMeansParams<f64, rand_xoshiro::Xoshiro256Plus, L2Dist>| {
            let d = make_data(21, 80, 2, false);
            let mut out = vec![("check".to_string(), verdict(p.check_ref()))];
            let m = p.fit(&DatasetBase::from(d.x.clone())).map_err(es)?;
            out.push(("refit-centroids".into(), arr2(m.centroids())));
            Ok(out)
        })
    }));
    v.push(("kmeans-params-invalid", |_| {
        let p = linfa_clustering::KMeans::<f64, L2Dist>::params_with_rng(0, rand_xoshiro::Xoshiro256Plus::seed_from_u64(9));
        ser!("kmeans-params-invalid", p, eq, |p: &linfa_clustering::KMeansParams<f64, rand_xoshiro::Xoshiro256Plus, L2Dist>| {
            Ok(vec![("check".to_string(), verdict(p.check_ref()))])
        })
    }));
    v.push(("gmm-params", |_| {
        let p = linfa_clustering::GaussianMixtureModel::<f64>::params_with_rng(2, rand_xoshiro::Xoshiro256Plus::seed_from_u64(5)).tolerance(1e-4).reg_covariance(1e-5);
        ser!("gmm-params", p, eq, |p: &linfa_clustering::GmmParams<f64, rand_xoshiro::Xoshiro256Plus>| {
            let d = make_data(22, 100, 2, false);
            let mut out = vec![("check".to_string(), verdict(p.check_ref()))];
            let m = p.fit(&DatasetBase::from(d.x.clone())).map_err(es)?;
            out.push(("refit-means".into(), arr2(m.means())));
            out.push(("refit-weights".into(), arr1(m.weights())));
            Ok(out)
        })
    }));
    v.push(("ftrl-params", |_| {
        let p = linfa_ftrl::Ftrl::<f64>::params().alpha(0.05).beta(0.5).l1_ratio(0.1).l2_ratio(0.3);
        ser!("ftrl-params", p, noeq, |p: &linfa_ftrl::FtrlParams<f64, rand_xoshiro::Xoshiro256Plus>| {
            let d = make_data(23, 80, 3, false);
            let mut out = vec![("check".to_string(), verdict(p.check_ref()))];
            let m = p.fit_with(None, &Dataset::new(d.x.clone(), d.ybin.clone())).map_err(es)?;
            out.push(("refit-weights".into(), arr1(&m.get_weights())));
            Ok(out)
        })
    }));
    // fitted elastic nets whose variance estimate succeeded / failed for two different reasons:
    // the statistics derived from it (or the error they report) belong to the model's behaviour
    v.push(("elasticnet-model-statistics", |seed| {
        let d = make_data(5, 40, 3, false);
        let mut x = d.x.clone();
        let (x, y) = match seed % 3 {
            0 => (x, d.yreg.clone()),
            1 => {
                x.column_mut(1).fill(0.0); // singular design: the estimate is ill conditioned
                (x, d.yreg.clone())
            }
            _ => (x.slice(ndarray::s![..3, ..]).to_owned(), d.yreg.slice(ndarray::s![..3]).to_owned()), // too few samples
        };
        let m = linfa_elasticnet::ElasticNet::<f64>::params().penalty(0.05).l1_ratio(0.5).fit(&Dataset::new(x, y)).map_err(es)?;
        ser!("elasticnet-model-statistics", m, noeq, |m: &linfa_elasticnet::ElasticNet<f64>| {
            Ok(vec![
                ("hyperplane".into(), arr1(&m.hyperplane().to_owned())),
                ("intercept".into(), fb(m.intercept())),
                ("z_score".into(), match m.z_score() { Ok(z) => arr1(&z), Err(e) => format!("err: {e}") }),
                ("confidence_95th".into(), match m.confidence_95th() { Ok(c) => c.iter().map(|(a, b)| format!("{}:{}", fb(*a), fb(*b))).collect::<Vec<_>>().join(","), Err(e) => format!("err: {e}") }),
            ])
        })
    }));
    v.push(("multitask-elasticnet-model-statistics", |seed| {
        let d = make_data(5, 40, 3, false);
        let mut x = d.x.clone();
        let (x, y) = match seed % 3 {
            0 => (x, d.yreg2.clone()),
            1 => {
                x.column_mut(0).fill(0.0);
                (x, d.yreg2.clone())
            }
            _ => (x.slice(ndarray::s![..3, ..]).to_owned(), d.yreg2.slice(ndarray::s![..3, ..]).to_owned()),
        };
        let m = linfa_elasticnet::MultiTaskElasticNet::<f64>::params().penalty(0.05).l1_ratio(0.5).fit(&Dataset::new(x, y)).map_err(es)?;
        ser!("multitask-elasticnet-model-statistics", m, noeq, |m: &linfa_elasticnet::MultiTaskElasticNet<f64>| {
            Ok(vec![
                ("hyperplane".into(), arr2(&m.hyperplane().to_owned())),
                ("intercept".into(), arr1(&m.intercept().to_owned())),
                // z_score() / confidence_95th() of the multi-task model broadcast a length-p variance
                // against the p x t hyperplane and panic whenever t != p - on the original and on the
                // restored model alike, so it is not a round-trip matter and no property of this suite
                // covers it (noted in DESIGN.md section 9); only the error case is comparable
                ("statistics-error".into(), if m.hyperplane().nrows() == m.hyperplane().ncols() { "square: not probed".to_string() } else {
                    match crate::fw::guarded(|| m.z_score().map(|_| ())) { Ok(Ok(())) => "ok".into(), Ok(Err(e)) => format!("err: {e}"), Err(_) => "panics (broadcast)".into() } }),
            ])
        })
    }));
    v.push(("multitask-elasticnet-valid-params", |_| {
        let p = linfa_elasticnet::MultiTaskElasticNet::<f64>::params().penalty(0.2).l1_ratio(0.4).check().map_err(es)?;
        ser!("multitask-elasticnet-valid-params", p, eq, |p: &linfa_elasticnet::MultiTaskElasticNetValidParams<f64>| {
            let d = make_data(24, 50, 3, false);
            let m = p.fit(&Dataset::new(d.x.clone(), d.yreg2.clone())).map_err(es)?;
            Ok(vec![("refit-hyperplane".into(), arr2(&m.hyperplane().to_owned())), ("refit-intercept".into(), arr1(&m.intercept().to_owned()))])
        })
    }));

    // ---- parameter sets with hostile float values (non-finite, signed zero, extreme): the restored
    //      set must pass or fail validation exactly like the original and refit alike
    fn hostile(seed: u64) -> f64 {
        [f64::NAN, f64::NEG_INFINITY, f64::INFINITY, -0.0, 0.0, -1.0, 1e-300, 1e300, 0.5][(seed % 9) as usize]
    }
    fn refit_or_err(r: Result<String, String>) -> String {
        match r {
            Ok(s) => s,
            Err(e) => format!("fit-err: {e}"),
        }
    }
    v.push(("optics-params-hostile", |seed| {
        let p = Optics::params::<f64>(3).tolerance(hostile(seed));
        ser!("optics-params-hostile", p, noeq, |p: &linfa_clustering::OpticsParams<f64, L2Dist, CommonNearestNeighbour>| {
            let d = make_data(4, 40, 2, false);
            let mut out = vec![("check".to_string(), verdict(p.check_ref()))];
            out.push(("analysis".into(), refit_or_err(p.transform(d.x.view()).map_err(es).map(|a| {
                a.iter().map(|s| format!("{}:{:?}:{:?}", s.index(), s.core_distance().map(fb), s.reachability_distance().map(fb))).collect::<Vec<_>>().join(",")
            }))));
            Ok(out)
        })
    }));
    v.push(("kmeans-params-hostile", |seed| {
        let p = linfa_clustering::KMeans::<f64, L2Dist>::params_with_rng(2, rand_xoshiro::Xoshiro256Plus::seed_from_u64(9)).max_n_iterations(10).tolerance(hostile(seed));
        ser!("kmeans-params-hostile", p, noeq, |p: &linfa_clustering::KMeansParams<f64, rand_xoshiro::Xoshiro256Plus, L2Dist>| {
            let d = make_data(21, 40, 2, false);
            let mut out = vec![("check".to_string(), verdict(p.check_ref()))];
            out.push(("refit".into(), refit_or_err(p.fit(&DatasetBase::from(d.x.clone())).map_err(es).map(|m| arr2(m.centroids())))));
            Ok(out)
        })
    }));
    v.push(("gmm-params-hostile", |seed| {
        let base = linfa_clustering::GaussianMixtureModel::<f64>::params_with_rng(2, rand_xoshiro::Xoshiro256Plus::seed_from_u64(5)).max_n_iterations(15);
        let p = if (seed / 9) % 2 == 0 { base.tolerance(hostile(seed)) } else { base.reg_covariance(hostile(seed)) };
        ser!("gmm-params-hostile", p, noeq, |p: &linfa_clustering::GmmParams<f64, rand_xoshiro::Xoshiro256Plus>| {
            let d = make_data(22, 60, 2, false);
            let mut out = vec![("check".to_string(), verdict(p.check_ref()))];
            out.push(("refit".into(), refit_or_err(p.fit(&DatasetBase::from(d.x.clone())).map_err(es).map(|m| arr2(m.means())))));
            Ok(out)
        })
    }));
    v.push(("logistic-params-hostile", |seed| {
        let base = linfa_logistic::LogisticRegression::<f64>::default().max_iterations(30);
        let p = if (seed / 9) % 2 == 0 { base.alpha(hostile(seed)) } else { base.gradient_tolerance(hostile(seed)) };
        ser!("logistic-params-hostile", p, noeq, |p: &linfa_logistic::LogisticRegression<f64>| {
            let d = make_data(6, 60, 2, false);
            let mut out = vec![("check".to_string(), verdict(p.check_ref()))];
            if p.check_ref().is_ok() {
                out.push(("refit".into(), refit_or_err(p.fit(&Dataset::new(d.x.clone(), d.ybin.clone())).map_err(es).map(|m| arr1(m.params())))));
            }
            Ok(out)
        })
    }));
    // initial parameters held in a non-standard memory layout (deserialisation restores standard
    // layout), finite or not: the guard's verdict and the refit must not depend on the layout
    v.push(("logistic-params-initial-layout", |seed| {
        let vals = [0.1, -0.2, [0.3, f64::NAN, f64::INFINITY, 0.3][(seed % 4) as usize]];
        let rev = Array1::from(vec![vals[2], vals[1], vals[0]]);
        let init = rev.slice(ndarray::s![..;-1]).to_owned(); // logical [0.1, -0.2, x], stride -1
        let p = linfa_logistic::LogisticRegression::<f64>::default().max_iterations(40).initial_params(init);
        ser!("logistic-params-initial-layout", p, noeq, |p: &linfa_logistic::LogisticRegression<f64>| {
            let d = make_data(6, 60, 2, false);
            let mut out = vec![("check".to_string(), verdict(p.check_ref()))];
            if p.check_ref().is_ok() {
                out.push(("refit".into(), refit_or_err(p.fit(&Dataset::new(d.x.clone(), d.ybin.clone())).map_err(es).map(|m| arr1(m.params())))));
            }
            Ok(out)
        })
    }));
    v.push(("multi-logistic-params-initial-layout", |seed| {
        let bad = [0.05, f64::NAN, f64::NEG_INFINITY, 0.05][(seed % 4) as usize];
        // logical 3 x 3 (2 features + intercept row, 3 classes), stored column-major
        let t = Array2::from_shape_fn((3, 3), |(c, r)| if (r, c) == (1, 2) { bad } else { 0.01 * (r as f64) - 0.02 * (c as f64) });
        let init = t.reversed_axes();
        let p = linfa_logistic::MultiLogisticRegression::<f64>::default().max_iterations(40).initial_params(init);
        ser!("multi-logistic-params-initial-layout", p, noeq, |p: &linfa_logistic::MultiLogisticRegression<f64>| {
            let d = make_data(6, 90, 2, false);
            let mut out = vec![("check".to_string(), verdict(p.check_ref()))];
            if p.check_ref().is_ok() {
                out.push(("refit".into(), refit_or_err(p.fit(&Dataset::new(d.x.clone(), d.ycls.clone())).map_err(es).map(|m| arr2(m.params())))));
            }
            Ok(out)
        })
    }));
    // thresholds the setter accepts (it only rejects values ordered outside [0, 1]): the ends, a
    // subnormal, an ordinary value and NaN
    v.push(("logistic-model-threshold-variants", |seed| {
        let d = make_data(61, 80, 2, false);
        let y = d.ybin.mapv(|b| if b { 1usize } else { 0usize });
        let t = [0.0, 1.0, 0.35, 1e-310, f64::NAN][(seed % 5) as usize];
        let m = linfa_logistic::LogisticRegression::default().alpha(0.5).max_iterations(100).fit(&Dataset::new(d.x.clone(), y)).map_err(es)?.set_threshold(t);
        ser!("logistic-model-threshold-variants", m, noeq, |m: &linfa_logistic::FittedLogisticRegression<f64, usize>| {
            let q = make_data(62, 30, 2, false).x;
            let y: Array1<usize> = m.predict(&q);
            Ok(vec![("predict".into(), format!("{:?}", y.to_vec())), ("debug".into(), format!("{m:?}"))])
        })
    }));
    v.push(("tree-params-hostile", |seed| {
        let base = linfa_trees::DecisionTree::<f64, usize>::params().max_depth(Some(3));
        let h = hostile(seed) as f32;
        let p = match (seed / 9) % 3 { 0 => base.min_impurity_decrease(hostile(seed)), 1 => base.min_weight_leaf(h), _ => base.min_weight_split(h) };
        ser!("tree-params-hostile", p, noeq, |p: &linfa_trees::DecisionTreeParams<f64, usize>| {
            let d = make_data(8, 50, 2, false);
            let mut out = vec![("check".to_string(), verdict(p.check_ref()))];
            if p.check_ref().is_ok() {
                out.push(("refit".into(), refit_or_err(p.fit(&Dataset::new(d.x.clone(), d.ycls.clone())).map_err(es).map(|m| format!("{}/{}", m.max_depth(), m.num_leaves())))));
            }
            Ok(out)
        })
    }));
    v.push(("ftrl-params-hostile", |seed| {
        let base = linfa_ftrl::Ftrl::<f64>::params();
        let h = hostile(seed);
        let p = match (seed / 9) % 4 { 0 => base.alpha(h), 1 => base.beta(h), 2 => base.l1_ratio(h), _ => base.l2_ratio(h) };
        ser!("ftrl-params-hostile", p, noeq, |p: &linfa_ftrl::FtrlParams<f64, rand_xoshiro::Xoshiro256Plus>| {
            let d = make_data(23, 40, 2, false);
            let mut out = vec![("check".to_string(), verdict(p.check_ref()))];
            if p.check_ref().is_ok() {
                out.push(("refit".into(), refit_or_err(p.fit_with(None, &Dataset::new(d.x.clone(), d.ybin.clone())).map_err(es).map(|m| arr1(&m.get_weights())))));
            }
            Ok(out)
        })
    }));
    v.push(("scaler-params-hostile", |seed| {
        let (a, b2) = (hostile(seed), hostile(seed / 9 + 3));
        ser!("scaler-params-hostile", LinearScaler::<f64>::min_max_range(a, b2), noeq, |p: &linfa_preprocessing::linear_scaling::LinearScalerParams<f64>| {
            let d = make_data(3, 20, 2, false);
            Ok(vec![("refit".into(), refit_or_err(p.fit(&DatasetBase::from(d.x.clone())).map_err(es).map(|m| format!("{}|{}", arr1(m.offsets()), arr1(m.scales())))))])
        })
    }));
    v.push(("pca-params-variants", |seed| {
        let p = linfa_reduction::Pca::params(1 + (seed % 3) as usize).whiten(seed % 2 == 0);
        ser!("pca-params-variants", p, eq, |p: &linfa_reduction::PcaParams| {
            let d = make_data(10, 40, 4, false);
            Ok(vec![("refit".into(), refit_or_err(p.fit(&DatasetBase::from(d.x.clone())).map_err(es).map(|m| arr2(m.components()))))])
        })
    }));

    // ---- models whose predictions involve exact ties (resolved the same way by the restored copy)
    v.push(("gaussian-nb-tied-classes", |seed| {
        // six classes fitted on identical observations: every posterior is exactly tied
        let base = make_data(seed, 12, 2, false).x;
        let reps = 6usize;
        let x = Array2::from_shape_fn((base.nrows() * reps, 2), |(i, j)| base[[i % base.nrows(), j]]);
        let y = Array1::from_shape_fn(base.nrows() * reps, |i| 100 + 7 * (i / base.nrows()));
        let m = linfa_bayes::GaussianNb::<f64, usize>::params().fit(&Dataset::new(x, y)).map_err(es)?;
        ser!("gaussian-nb-tied-classes", m, eq, |m: &linfa_bayes::GaussianNb<f64, usize>| {
            let y: Array1<usize> = m.predict(&zoo::probe(8, 12, 2, false));
            Ok(vec![("predict".into(), format!("{:?}", y.to_vec()))])
        })
    }));
    v.push(("multinomial-nb-tied-classes", |seed| {
        let base = make_data(seed, 10, 3, false).xcount;
        let reps = 5usize;
        let x = Array2::from_shape_fn((base.nrows() * reps, 3), |(i, j)| base[[i % base.nrows(), j]]);
        let y = Array1::from_shape_fn(base.nrows() * reps, |i| 3 + 11 * (i / base.nrows()));
        let m = linfa_bayes::MultinomialNb::<f64, usize>::params().fit(&Dataset::new(x, y)).map_err(es)?;
        ser!("multinomial-nb-tied-classes", m, eq, |m: &linfa_bayes::MultinomialNb<f64, usize>| {
            let y: Array1<usize> = m.predict(&zoo::probe(8, 12, 3, true));
            Ok(vec![("predict".into(), format!("{:?}", y.to_vec()))])
        })
    }));
    v.push(("tree-tied-leaves-model", |_| {
        let x = array![[0.0, 1.0], [0.0, 1.0], [1.0, 0.0], [1.0, 0.0], [2.0, 2.0], [2.0, 2.0], [2.0, 2.0]];
        let y = array![0usize, 1, 2, 3, 4, 5, 6];
        let m = linfa_trees::DecisionTree::params().fit(&Dataset::new(x, y)).map_err(es)?;
        ser!("tree-tied-leaves-model", m, eq, |m: &linfa_trees::DecisionTree<f64, usize>| {
            let q = array![[0.0, 1.0], [1.0, 0.0], [2.0, 2.0], [5.0, 5.0]];
            let y: Array1<usize> = m.predict(&q);
            let mut f = m.features();
            f.sort_unstable();
            Ok(vec![("predict".into(), format!("{:?}", y.to_vec())), ("features(sorted)".into(), format!("{f:?}"))])
        })
    }));

    // trees whose pruning merged subtrees (children predicting the same class collapse into a leaf that
    // keeps the data of the split it once was): every node is walked and everything it publishes compared
    v.push(("tree-pruned-nodes-variants", |seed| {
        let d = make_data(40 + seed % 5, 120, 3, false);
        // few classes, noisy labels, small depth / large leaf weight: plenty of merged subtrees
        let y = d.ycls.mapv(|l| l % 2);
        let base = linfa_trees::DecisionTree::params();
        let p = match seed % 3 { 0 => base.max_depth(Some(2)), 1 => base.min_weight_leaf(12.0), _ => base.max_depth(Some(4)).min_weight_split(30.0) };
        let m = p.fit(&Dataset::new(d.x.clone(), y)).map_err(es)?;
        ser!("tree-pruned-nodes-variants", m, eq, |m: &linfa_trees::DecisionTree<f64, usize>| {
            let nodes: Vec<String> = m.iter_nodes().map(|n| {
                let (f, v, imp) = n.split();
                format!("d{} leaf={} pred={:?} split=({f},{},{}) children={}", n.depth(), n.is_leaf(), n.prediction(), fb(v), fb(imp),
                    n.children().iter().filter(|c| c.is_some()).count())
            }).collect();
            let y: Array1<usize> = m.predict(&zoo::probe(8, 12, 3, false));
            Ok(vec![("nodes".into(), nodes.join(";")), ("predict".into(), format!("{:?}", y.to_vec())),
                ("importance".into(), fbs(m.feature_importance().iter())), ("leaves".into(), m.num_leaves().to_string()), ("depth".into(), m.max_depth().to_string())])
        })
    }));

    // ---- kernels methods, enums, errors
    v.push(("kernel-method-gaussian", |_| {
        ser!("kernel-method-gaussian", linfa_kernel::KernelMethod::Gaussian(2.5f64), eq, |k: &linfa_kernel::KernelMethod<f64>| {
            let a = array![0.5, -1.25, 3.0];
            let b = array![-2.0, 0.75, 1.5];
            Ok(vec![("distance".into(), fb(k.distance(a.view(), b.view())))])
        })
    }));
    v.push(("kernel-method-gaussian-variants", |seed| {
        // bandwidths whose reciprocal of the reciprocal is not the value itself, among others
        let e = [49.0f64, 0.45, 0.9, 0.5, 3.3, 1e-3, 7.0, 0.1][(seed % 8) as usize];
        ser!("kernel-method-gaussian-variants", linfa_kernel::KernelMethod::Gaussian(e), eq, |k: &linfa_kernel::KernelMethod<f64>| {
            let a = array![0.5, -1.25, 3.0];
            let b = array![-2.0, 0.75, 1.5];
            Ok(vec![("distance".into(), fb(k.distance(a.view(), b.view()))), ("debug".into(), format!("{k:?}"))])
        })
    }));
    // an SVM whose published dual coefficients are non-zero but below the support-vector threshold
    // (linear kernel on unscaled features): the coefficients belong to the model
    v.push(("svm-linear-unscaled-features", |seed| {
        let d = make_data(50 + seed % 3, 16, 2, false);
        let x = d.x.mapv(|v| v * 1e8);
        let m = linfa_svm::Svm::<f64, bool>::params().linear_kernel().pos_neg_weights(1.0, 1.0).eps(1e-2).fit(&Dataset::new(x.clone(), d.ybin.clone())).map_err(es)?;
        ser!("svm-linear-unscaled-features", m, eq, move |m: &linfa_svm::Svm<f64, bool>| {
            let q = make_data(9, 10, 2, false).x.mapv(|v| v * 1e8);
            let y: Array1<bool> = m.predict(&q);
            Ok(vec![("alpha".into(), fbs(m.alpha.iter())), ("rho".into(), fb(m.rho)), ("nsupport".into(), m.nsupport().to_string()), ("predict".into(), format!("{:?}", y.to_vec()))])
        })
    }));
    // isotonic fits on a feature with ties whose responses are not pooled: repeated thresholds
    v.push(("isotonic-tied-abscissae", |seed| {
        let n = 24;
        let x = Array2::from_shape_fn((n, 1), |(i, _)| (i / 3) as f64);
        let y = Array1::from_shape_fn(n, |i| i as f64 * 0.5 + ((i * 7 + seed as usize) % 3) as f64 * 0.01);
        let m = linfa_linear::IsotonicRegression::new().fit(&Dataset::new(x, y)).map_err(es)?;
        ser!("isotonic-tied-abscissae", m, eq, |m: &linfa_linear::FittedIsotonicRegression<f64>| {
            let q = Array2::from_shape_fn((60, 1), |(i, _)| i as f64 * 0.15 - 0.5);
            let y: Array1<f64> = m.predict(&q);
            Ok(vec![("predict".into(), fbs(y.iter()))])
        })
    }));
    v.push(("kernel-method-poly", |_| {
        ser!("kernel-method-poly", linfa_kernel::KernelMethod::Polynomial(1.5f64, 3.0), eq, |k: &linfa_kernel::KernelMethod<f64>| {
            let a = array![0.5, -1.25, 3.0];
            let b = array![-2.0, 0.75, 1.5];
            Ok(vec![("distance".into(), fb(k.distance(a.view(), b.view())))])
        })
    }));
    v.push(("error-linfa", |seed| {
        let e = match seed % 5 {
            0 => linfa::Error::Parameters("bad \"value\" \u{e9}".into()),
            1 => linfa::Error::Priors("p".into()),
            2 => linfa::Error::NotConverged("after 3".into()),
            3 => linfa::Error::MismatchedShapes(3, 17),
            _ => linfa::Error::NotEnoughSamples,
        };
        ser!("error-linfa", e, noeq, |e: &linfa::Error| Ok(vec![("display".into(), format!("{e}")), ("debug".into(), format!("{e:?}"))]))
    }));
    v.push(("error-platt", |seed| {
        use linfa::composing::platt_scaling::PlattError;
        let e = match seed % 3 {
            0 => PlattError::MaxIterReached,
            1 => PlattError::LineSearchNotConverged,
            _ => PlattError::MinStepNegative(-0.5),
        };
        ser!("error-platt", e, noeq, |e: &PlattError| Ok(vec![("display".into(), format!("{e}")), ("debug".into(), format!("{e:?}"))]))
    }));
    v.push(("error-elasticnet", |_| {
        let e = linfa_elasticnet::ElasticNetError::InvalidL1Ratio(1.5);
        ser!("error-elasticnet", e, noeq, |e: &linfa_elasticnet::ElasticNetError| Ok(vec![("display".into(), format!("{e}")), ("debug".into(), format!("{e:?}"))]))
    }));
    let _ = rand_xoshiro::Xoshiro256Plus::seed_from_u64(0);
    v
}

/// every serialisable subject: zoo predictors + the others
pub fn all_builders() -> Vec<(String, Box<dyn Fn(u64) -> Result<Box<dyn SerSubject>, String> + Send + Sync>)> {
    let mut out: Vec<(String, Box<dyn Fn(u64) -> Result<Box<dyn SerSubject>, String> + Send + Sync>)> = vec![];
    for (name, b) in zoo::predictor_builders() {
        out.push((
            format!("model:{name}"),
            Box::new(move |seed| {
                let inner = b(seed)?;
                let counts = inner.name().contains("multinomial");
                let probe = zoo::probe(seed ^ 0xabc, 25, inner.nfeatures(), counts);
                Ok(Box::new(PredictorSer { inner, probe }) as Box<dyn SerSubject>)
            }),
        ));
    }
    for (name, b) in other_builders() {
        out.push((name.to_string(), Box::new(move |seed| b(seed))));
    }
    out
}
