//! Tiny workloads for the Miri lanes (undefined-behaviour and data-race interpreter).
//! usage: miri-lane <c01|c02|c16|c20>
//! Every lane prints `LANE-OK <lane> <n> <digest>` when its own assertions held.
use linfa::prelude::*;
use linfa::Dataset;
use ndarray::{s, Array1, Array2, Axis};

fn tagged(n: usize, p: usize) -> Array2<f64> {
    Array2::from_shape_fn((n, p), |(i, j)| (i * p + j) as f64)
}

fn lane_c01() -> (usize, u64) {
    let mut runs = 0;
    let mut digest = 0u64;
    for n in 2..=6usize {
        for k in 2..=n {
            for t in 1..=2usize {
                let p = 1 + (n + k) % 2;
                let rec = tagged(n, p);
                let fs = n / k;
                if t == 1 {
                    let tar = Array1::from_shape_fn(n, |i| i as f64);
                    let mut ds = Dataset::new(rec.clone(), tar.clone());
                    let out: Vec<(Vec<f64>, Vec<f64>)> = ds
                        .iter_fold(k, |tr| tr.records().column(0).to_vec())
                        .map(|(tr, va)| (tr, va.records().column(0).to_vec()))
                        .collect();
                    assert_eq!(out.len(), k);
                    for (f, (tr, va)) in out.iter().enumerate() {
                        assert_eq!(va.len(), fs);
                        assert_eq!(tr.len(), n - fs);
                        assert_eq!(va[0], (f * fs * p) as f64);
                    }
                    assert_eq!(ds.records(), &rec);
                    assert_eq!(ds.targets(), &tar);
                    for (tr, va) in ds.fold(k) {
                        assert_eq!(tr.nsamples() + va.nsamples(), n);
                        digest = digest.wrapping_mul(31).wrapping_add(va.records()[[0, 0]] as u64);
                    }
                } else {
                    let tar = Array2::from_shape_fn((n, 2), |(i, c)| (i * 2 + c) as f64);
                    let mut ds = Dataset::new(rec.clone(), tar.clone());
                    let out: Vec<(usize, usize)> = ds
                        .iter_fold(k, |tr| tr.nsamples())
                        .map(|(tr, va)| (tr, va.nsamples()))
                        .collect();
                    assert!(out.iter().all(|(a, b)| *a == n - fs && *b == fs));
                    assert_eq!(ds.records(), &rec);
                    assert_eq!(ds.targets(), &tar);
                    for (tr, va) in ds.fold(k) {
                        assert_eq!(tr.nsamples() + va.nsamples(), n);
                        assert_eq!(va.targets()[[0, 1]] - va.targets()[[0, 0]], 1.0);
                    }
                }
                runs += 1;
            }
        }
    }
    (runs, digest)
}

fn lane_c02() -> (usize, u64) {
    // owned split (raw-vec path), also on arrays sliced in place, with weights
    let mut runs = 0;
    let mut digest = 0u64;
    for n in 1..=6usize {
        for num in 0..=4 {
            let ratio = num as f32 / 4.0;
            for sliced in [false, true] {
                let p = 2;
                let (rec, tar, w) = if sliced {
                    let big = tagged(n + 2, p);
                    let rec = big.slice_move(s![1..n + 1, ..]);
                    let tar = Array1::from_shape_fn(n + 2, |i| i as f64).slice_move(s![1..n + 1]);
                    let w = Array1::from_shape_fn(n + 2, |i| i as f32 + 0.5).slice_move(s![1..n + 1]);
                    (rec, tar, w)
                } else {
                    (tagged(n, p) + 2.0, Array1::from_shape_fn(n, |i| (i + 1) as f64), Array1::from_shape_fn(n, |i| i as f32 + 1.5))
                };
                let first_id = rec[[0, 0]] / p as f64;
                let ds = Dataset::new(rec, tar).with_weights(w);
                let n1 = (n as f32 * ratio).ceil() as usize;
                let (a, b) = ds.split_with_ratio(ratio);
                assert_eq!(a.nsamples(), n1);
                assert_eq!(b.nsamples(), n - n1);
                for (half, off) in [(&a, 0usize), (&b, n1)] {
                    for i in 0..half.nsamples() {
                        let id = first_id + (off + i) as f64;
                        assert_eq!(half.records()[[i, 0]], id * p as f64);
                        assert_eq!(half.targets()[i], id);
                        assert_eq!(half.weights().unwrap()[i], id as f32 + 0.5);
                    }
                }
                digest = digest.wrapping_mul(31).wrapping_add(n1 as u64);
                runs += 1;
            }
        }
    }
    // shuffle / bootstrap / views on a tiny dataset
    let ds = Dataset::new(tagged(5, 2), Array1::from_shape_fn(5, |i| i as f64));
    let mut rng = rand_xoshiro::Xoshiro256Plus::seed_from_u64(1);
    let sh = ds.shuffle(&mut rng);
    for i in 0..5 {
        assert_eq!(sh.records()[[i, 0]], sh.targets()[i] * 2.0);
    }
    let bs = ds.bootstrap_samples(4, &mut rng).next().unwrap();
    for i in 0..4 {
        assert_eq!(bs.records()[[i, 0]], bs.targets()[i] * 2.0);
    }
    let v = ds.view();
    let (x, y) = v.split_with_ratio(0.4);
    assert_eq!(x.nsamples() + y.nsamples(), 5);
    (runs + 3, digest)
}
use rand::SeedableRng;

fn lane_c16() -> (usize, u64) {
    use linfa_preprocessing::linear_scaling::LinearScaler;
    use linfa_preprocessing::norm_scaling::NormScaler;
    use linfa_preprocessing::whitening::Whitener;
    let mats = [
        ndarray::array![[1.0, 2.0], [3.0, -1.0], [0.5, 4.0], [2.0, 2.5]],
        ndarray::array![[0.0, 0.0], [1.0, 5.0], [2.0, 3.0], [-1.0, 1.0]],
        ndarray::array![[10.0, -2.0], [11.0, 2.0], [9.5, 0.0], [10.5, 1.0]],
    ];
    let mut runs = 0;
    let mut digest = 0u64;
    for m in mats.iter() {
        let ds = linfa::DatasetBase::from(m.clone());
        for params in [LinearScaler::standard(), LinearScaler::min_max(), LinearScaler::max_abs(), LinearScaler::standard_no_mean()] {
            let sc = params.fit(&ds).unwrap();
            let out = sc.transform(m.clone());
            assert!(out.iter().all(|v: &f64| v.is_finite()));
            digest = digest.wrapping_mul(31).wrapping_add(out[[0, 0]].to_bits());
            runs += 1;
        }
        for ns in [NormScaler::l1(), NormScaler::l2(), NormScaler::max()] {
            let out = ns.transform(m.clone());
            digest = digest.wrapping_mul(31).wrapping_add(out[[1, 1]].to_bits());
            runs += 1;
        }
        for w in [Whitener::pca(), Whitener::zca(), Whitener::cholesky()] {
            let fw = w.fit(&ds).unwrap();
            let out = fw.transform(m.clone());
            assert!(out.iter().all(|v: &f64| v.is_finite()));
            digest = digest.wrapping_mul(31).wrapping_add(out[[0, 0]].to_bits());
            runs += 1;
        }
    }
    (runs, digest)
}

fn lane_c20() -> (usize, u64) {
    use linfa_clustering::{KMeans, KMeansInit};
    // 3 worker threads: the parallel assignment / inertia loops really run on several threads
    let pool = rayon::ThreadPoolBuilder::new().num_threads(3).build().unwrap();
    let x = Array2::from_shape_fn((14, 2), |(i, j)| ((i * 7 + j * 3) % 11) as f64 + if i < 7 { 0.0 } else { 20.0 });
    let ds = linfa::DatasetBase::from(x.clone());
    let mut digest = 0u64;
    let mut runs = 0;
    for init in [KMeansInit::Random, KMeansInit::KMeansPlusPlus] {
        let m = pool.install(|| {
            KMeans::params_with_rng(2, rand_xoshiro::Xoshiro256Plus::seed_from_u64(42))
                .init_method(init.clone())
                .n_runs(1)
                .max_n_iterations(3)
                .fit(&ds)
                .unwrap()
        });
        for v in m.centroids().iter() {
            digest = digest.wrapping_mul(0x100000001b3).wrapping_add(v.to_bits());
        }
        let y = pool.install(|| m.predict(&x));
        for v in y.iter() {
            digest = digest.wrapping_mul(31).wrapping_add(*v as u64);
        }
        digest = digest.wrapping_mul(31).wrapping_add(m.inertia().to_bits());
        runs += 1;
    }
    let _ = Axis(0);
    (runs, digest)
}

fn main() {
    let lane = std::env::args().nth(1).unwrap_or_default();
    let (n, d) = match lane.as_str() {
        "c01" => lane_c01(),
        "c02" => lane_c02(),
        "c16" => lane_c16(),
        "c20" => lane_c20(),
        _ => {
            eprintln!("usage: miri-lane <c01|c02|c16|c20>");
            std::process::exit(2);
        }
    };
    println!("LANE-OK {lane} {n} {d:016x}");
}
