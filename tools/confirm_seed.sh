#!/usr/bin/env bash
# tools/confirm_seed.sh <worktree> <seed-dir(mK)> <crate-tests...>
# confirms: demo passes without patch, fails with patch, crate tests pass with patch. Leaves the worktree reset.
set -u
WT="$1"; SD="$2"; shift 2
cd "$WT" || exit 2
git checkout -q -- . ; git clean -fdq -e target -e Cargo.lock
[ -f Cargo.lock ] || cp /repo/Cargo.lock Cargo.lock
place=$(python3 -c "import json;print(json.load(open('$SD/meta.json'))['demo_place'])")
cmd=$(python3 -c "import json;print(json.load(open('$SD/meta.json'))['demo_cmd'])")
mkdir -p "$(dirname "$place")"; cp "$SD/demo.rs" "$place"
echo "--- demo without patch: $cmd"
( eval "$cmd" ) > /tmp/confirm.log 2>&1; rc0=$?; grep -E "^test result|error(\[|:)" /tmp/confirm.log | head -3
git apply "$SD/patch.diff" || { echo "PATCH DOES NOT APPLY"; exit 2; }
echo "--- demo with patch"
( eval "$cmd" ) > /tmp/confirm.log 2>&1; rc1=$?; grep -E "^test result|panicked|error(\[|:)" /tmp/confirm.log | head -4
rm -f "$place"
echo "--- crate tests with patch: $*"
rc2=0
for c in "$@"; do cargo test -p "$c" --offline > /tmp/confirm.log 2>&1 || rc2=1; grep -E "^test result" /tmp/confirm.log | head -3; done
git checkout -q -- . ; git clean -fdq -e target -e Cargo.lock
echo "RESULT demo_without=$rc0 (want 0) demo_with=$rc1 (want !=0) tests_with=$rc2 (want 0)"
