#!/usr/bin/env python3
"""tools/keep_batch.py <proc.log> [override-json]  — store every seed of a tools/process_seeds2.sh log whose
confirmation line is good under /verif/seeded/<PROP>/<name>/ (outN-CXX/mK -> mK for N absent, rN-mK otherwise).
override-json: {"out2-C07/m2": {checks_run...}} replaces the checks_run record (used after a strengthening)."""
import json, os, re, shutil, sys
log = open(sys.argv[1]).read().split('\n')
over = json.loads(sys.argv[2]) if len(sys.argv) > 2 else {}
cur = None; conf = {}; res = {}
for l in log:
    m = re.match(r'== (out(\d*)-(C\d+))/(m\d+)', l)
    if m: cur = (m.group(1), m.group(2), m.group(3), m.group(4)); continue
    if cur and l.startswith('RESULT'): conf[cur] = l
    m = re.match(r'(C\d+) exit=(\d+)\s*(.*)', l)
    if cur and m: res.setdefault(cur, {})[m.group(1)] = (int(m.group(2)), m.group(3).strip())
for cur, line in conf.items():
    out, rnd, prop, mk = cur
    if 'demo_without=0' not in line or 'tests_with=0' not in line or 'demo_with=0 ' in line:
        print('NOT CONFIRMED', cur, line); continue
    src = f'/tmp/seed/{out}/{mk}'
    name = mk if rnd == '' else f'r{rnd}-{mk}'
    key = f'{out}/{mk}'
    det = over.get(key)
    if det is None:
        det = {}
        for chk, (ex, sigs) in res.get(cur, {}).items():
            sigs = re.sub(r'\s+', ' ', re.sub(r'signature=', '', sigs))
            det[f'{chk} quick'] = f'exit {ex} ' + (sigs if ex else '- MISSED')
        if any(v.startswith('exit 0') for v in det.values()):
            print('MISSED, not stored without override:', key); continue
    dst = f'/verif/seeded/{prop}/{name}'
    os.makedirs(dst, exist_ok=True)
    for f in os.listdir(src):
        if f in ('patch.diff', 'demo.rs') or (f.endswith('.rs')):
            shutil.copy(os.path.join(src, f), dst)
    meta = json.load(open(os.path.join(src, 'meta.json')))
    json.dump({
        "property": prop, "summary": meta.get("summary"), "files": meta.get("files"),
        "needs_to_manifest": meta.get("needs_to_manifest"), "why_existing_tests_pass": meta.get("why_tests_pass"),
        "demo_place": meta.get("demo_place"), "demo_cmd": meta.get("demo_cmd"),
        "author_commands_run": meta.get("commands_run"),
        "confirmed_by_me": "tools/confirm_seed.sh in a scratch worktree outside /repo and /verif: " + line,
        "checks_run": det}, open(os.path.join(dst, 'meta.json'), 'w'), indent=1)
    print('kept', dst)
