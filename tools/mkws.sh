#!/usr/bin/env bash
# tools/mkws.sh <ID>: private workspace for writing/testing one monitor: /tmp/hw/<ID>/{harness,repo}
set -e
ID="$1"; lower=$(echo "$ID" | tr 'A-Z' 'a-z')
W=/tmp/hw/$ID
rm -rf "$W"; mkdir -p "$W/out" "$W/evidence" "$W/replays"
rsync -a --exclude target /repo/ "$W/repo/"
rsync -a /verif/harness/ "$W/harness/"
sed -i "s|\"/repo|\"$W/repo|g" "$W/harness/Cargo.toml"
cp /verif/known_findings.json "$W/known_findings.json"
cat > "$W/harness/src/bin/$lower.rs" <<EOM
//! $ID monitor binary (monitor source: ../props/$lower.rs)
#![allow(unused_imports, dead_code)]
#[macro_use]
extern crate linfa_verif;
use linfa_verif::{fw, gen, oracle, ser, zoo};

#[path = "../props/$lower.rs"]
mod m;

fn main() {
    linfa_verif::main_for("$ID", m::run, None);
}
EOM
[ -f "$W/harness/src/props/$lower.rs" ] || cat > "$W/harness/src/props/$lower.rs" <<EOM
//! $ID monitor
use crate::fw::*;
use serde_json::json;

pub fn run(ctx: &Ctx) {
    ctx.set_rule("TODO");
}
EOM
cat > "$W/run.sh" <<EOM
#!/usr/bin/env bash
# build + run the monitor of this workspace: ./run.sh quick|thorough [--replay f]
cd $W/harness && CARGO_NET_OFFLINE=true RUSTFLAGS=-Awarnings cargo build --release --offline --bin $lower 2>&1 | grep -E "^(error|warning: unus)" -A14 | head -120
VERIF_DIR=$W exec $W/harness/target/release/$lower "\$@"
EOM
chmod +x "$W/run.sh"
echo "$W ready"
