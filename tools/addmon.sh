#!/usr/bin/env bash
# tools/addmon.sh <ID> <path-to-cNN.rs>: install a monitor source and its binary stub
set -e
ID="$1"; lower=$(echo "$ID" | tr 'A-Z' 'a-z')
cp "$2" /verif/harness/src/props/$lower.rs
cat > /verif/harness/src/bin/$lower.rs <<EOM
//! $ID monitor binary (monitor source: ../props/$lower.rs)
#![allow(unused_imports, dead_code)]
#[macro_use]
extern crate linfa_verif;
use linfa_verif::{fw, gen, oracle, ser, zoo};

#[path = "../props/$lower.rs"]
mod m;

fn main() {
    linfa_verif::main_for("$ID", m::run, None);
}
EOM
echo "installed $ID"
