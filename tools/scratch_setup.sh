#!/usr/bin/env bash
# tools/scratch_setup.sh : (re)create /tmp/scr = {repo: detached worktree of /repo HEAD, verif: copy of /verif whose
# harness points at /tmp/scr/repo}. Lets seeded changes be tried without touching /repo while other checks run.
set -eu
SCR="${SCR:-/tmp/scr}"
mkdir -p $SCR
if [ ! -d $SCR/repo ]; then git -C /repo worktree add --detach $SCR/repo HEAD -q; cp /repo/Cargo.lock $SCR/repo/ 2>/dev/null || true; fi
git -C $SCR/repo checkout -q -- . ; git -C $SCR/repo checkout -q --detach "$(git -C /repo rev-parse HEAD)"
mkdir -p $SCR/verif
rsync -a --delete --exclude 'harness/target' --exclude 'miri_lane/target' --exclude '.git' --exclude 'replays' --exclude '.build.lock' /verif/ $SCR/verif/
sed -i "s#\"/repo#\"$SCR/repo#g" $SCR/verif/harness/Cargo.toml
echo "scratch ready: $SCR (repo at $(git -C $SCR/repo rev-parse --short HEAD))"
