#!/usr/bin/env bash
# tools/try_seed.sh <patch.diff> <ID> [<ID>...]: apply a seeded change to /repo, run the quick checks, undo.
# prints one line per check: "<ID> exit=<rc> <first VIOLATION signature>"
set -u
PATCH="$1"; shift
cd /verif
if [ -n "$(git -C /repo status --porcelain --untracked-files=no)" ]; then echo "/repo is dirty, refusing"; exit 2; fi
git -C /repo apply "$PATCH" || { echo "patch does not apply"; exit 2; }
trap 'git -C /repo checkout -- . ; git -C /repo clean -fdq -e target -e Cargo.lock >/dev/null 2>&1' EXIT
TIER="${TRY_TIER:-quick}"
for ID in "$@"; do
  cp "evidence/$ID.json" "/tmp/evidence-$ID.keep" 2>/dev/null
  out=$(VERIF_SEED="${VERIF_SEED:-0}" ./check "$ID" "$TIER" 2>&1); rc=$?
  sig=$(echo "$out" | grep -m3 -E "signature=|BUILD-FAILED|INCONCLUSIVE" | tr '\n' ' ' | cut -c1-240)
  echo "$ID exit=$rc $sig"
  # the evidence file must describe the unchanged tree: put the previous one back
  [ -f "/tmp/evidence-$ID.keep" ] && mv "/tmp/evidence-$ID.keep" "evidence/$ID.json"
done
