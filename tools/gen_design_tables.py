#!/usr/bin/env python3
"""Regenerates the findings table and the seeded-change table inside DESIGN.md (between markers)."""
import json, glob, os, re
d = json.load(open('/verif/known_findings.json'))
rows = ["| Property | Status | Commit | Signature | What failed |", "|---|---|---|---|---|"]
for f in sorted(d['findings'], key=lambda f: (f['property'], f['status'] != 'fixed')):
    what = f['what'].replace('|', '\\|')
    if len(what) > 330: what = what[:327] + '...'
    rows.append(f"| {f['property']} | {f['status']} | {f.get('commit','—')} | `{f['signature']}` | {what} |")
findings = "\n".join(rows)
srows = ["| Seeded change | What it does | Needs to manifest | Result of my checks |", "|---|---|---|---|"]
for m in sorted(glob.glob('/verif/seeded/*/*/meta.json')):
    j = json.load(open(m))
    name = "/".join(m.split('/')[-3:-1])
    res = "; ".join(f"{k}: {v}" for k, v in j.get('checks_run', {}).items())
    def cut(s, n):
        s = (s or '').replace('|', '\\|').replace('\n', ' ')
        return s if len(s) <= n else s[:n-3] + '...'
    srows.append(f"| {name} | {cut(j.get('summary'), 260)} | {cut(j.get('needs_to_manifest'), 220)} | {cut(res, 330)} |")
seeded = "\n".join(srows)
t = open('/verif/DESIGN.md').read()
t = re.sub(r'(<!-- FINDINGS-BEGIN -->).*?(<!-- FINDINGS-END -->)', lambda m: m.group(1) + "\n" + findings + "\n" + m.group(2), t, flags=re.S)
t = re.sub(r'(<!-- SEEDED-BEGIN -->).*?(<!-- SEEDED-END -->)', lambda m: m.group(1) + "\n" + seeded + "\n" + m.group(2), t, flags=re.S)
man = json.load(open('/verif/MANIFEST.json'))
prow = ["| Property | Deciding method (MANIFEST.technique) | Last committed quick evidence |", "|---|---|---|"]
for c in man['checks']:
    pid = c['property_id']
    ev = ''
    try:
        e = json.load(open(f'/verif/evidence/{pid}.json'))
        cov = e['coverage']
        ev = f"{cov['evaluations']:,} evaluations, {cov['distinct_nontrivial']:,} distinct non-trivial, {e['wall_s']:.0f} s ({e['tier']})"
    except Exception:
        pass
    prow.append(f"| {pid} | {c.get('technique','').replace('|','/')} | {ev} |")
for n in man.get('not_applicable', []):
    prow.append(f"| {n['property_id']} | not claimed: {n['reason']} | |")
t = re.sub(r'(<!-- PROPS-BEGIN -->).*?(<!-- PROPS-END -->)', lambda m: m.group(1) + "\n" + "\n".join(prow) + "\n" + m.group(2), t, flags=re.S)
open('/verif/DESIGN.md', 'w').write(t)
print("tables regenerated:", len(rows) - 2, "findings,", len(srows) - 2, "seeded changes")
