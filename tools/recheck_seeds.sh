#!/usr/bin/env bash
# tools/recheck_seeds.sh <ID>... : re-run every stored seeded change of the given properties against the
# current monitors inside the scratch copy (/tmp/scr, see scratch_setup.sh). Prints one line per change;
# anything but "exit=1" means the change is no longer detected (or no longer applies).
for ID in "$@"; do
  for d in /verif/seeded/$ID/*/; do
    name=$(basename "$d")
    echo -n "$ID/$name "
    /verif/tools/try_seed_scratch.sh "$d/patch.diff" "$ID" 2>&1 | tail -1 | cut -c1-160
  done
done
