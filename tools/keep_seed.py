#!/usr/bin/env python3
"""tools/keep_seed.py <PROP> <srcdir mK> <detected_by_json>  — store a confirmed seeded change under /verif/seeded/<PROP>/<mK>/"""
import json, os, shutil, sys
prop, src, det = sys.argv[1], sys.argv[2], json.loads(sys.argv[3])
name = os.path.basename(src.rstrip('/'))
dst = f"/verif/seeded/{prop}/{name}"
os.makedirs(dst, exist_ok=True)
for f in ("patch.diff", "demo.rs"):
    shutil.copy(os.path.join(src, f), dst)
for extra in os.listdir(src):
    if extra.endswith(".rs") and extra != "demo.rs":
        shutil.copy(os.path.join(src, extra), dst)
meta = json.load(open(os.path.join(src, "meta.json")))
out = {
    "property": prop,
    "summary": meta.get("summary"),
    "files": meta.get("files"),
    "needs_to_manifest": meta.get("needs_to_manifest"),
    "why_existing_tests_pass": meta.get("why_tests_pass"),
    "demo_place": meta.get("demo_place"),
    "demo_cmd": meta.get("demo_cmd"),
    "author_commands_run": meta.get("commands_run"),
    "confirmed_by_me": "tools/confirm_seed.sh in a scratch worktree outside /repo and /verif: demo passes without the patch, fails with it, the touched crates' unit tests pass with it",
    "checks_run": det,
}
json.dump(out, open(os.path.join(dst, "meta.json"), "w"), indent=1)
print("kept", dst)
