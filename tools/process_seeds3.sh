#!/usr/bin/env bash
# tools/process_seeds3.sh (scratch variant: checks run in /tmp/scr, /repo untouched) <WTDIR> <OUTDIR> <check ids...>
WT="$1"; OUT="$2"; shift 2
for SD in $OUT/m*; do
  [ -f "$SD/meta.json" ] || continue
  python3 - "$SD" <<'PY'
import json,sys
p=sys.argv[1]+'/meta.json'; d=json.load(open(p))
d['demo_place']=d['demo_place'].split(' ')[0]
c=d['demo_cmd']
for sep in ['   (',' (', '  #']:
    if sep in c: c=c.split(sep)[0]
d['demo_cmd']=c.strip()
json.dump(d,open(p,'w'),indent=1)
PY
  crates=$(python3 - "$SD" <<'PY'
import json,sys,re
m=json.load(open(sys.argv[1]+'/meta.json'))
cs=set()
for f in m.get('files',[]):
    mm=re.match(r'algorithms/([^/]+)/',f)
    cs.add(mm.group(1) if mm else 'linfa')
print(' '.join(sorted(cs)))
PY
)
  echo "== $(basename $OUT)/$(basename $SD) crates: $crates"
  /verif/tools/confirm_seed.sh "$WT" "$SD" $crates 2>&1 | tail -1
  /verif/tools/try_seed_scratch.sh "$SD/patch.diff" "$@"
done
