#!/usr/bin/env bash
# tools/try_seed_scratch.sh <patch.diff> <ID> [<ID>...]: like try_seed.sh, but inside /tmp/scr (see scratch_setup.sh)
set -u
PATCH="$1"; shift
SCR="${SCR:-/tmp/scr}"
cd $SCR/verif || exit 2
git -C $SCR/repo checkout -q -- . ; git -C $SCR/repo clean -fdq -e target -e Cargo.lock >/dev/null 2>&1
git -C $SCR/repo apply "$PATCH" || { echo "patch does not apply"; exit 2; }
trap 'git -C $SCR/repo checkout -q -- . ; git -C $SCR/repo clean -fdq -e target -e Cargo.lock >/dev/null 2>&1' EXIT
TIER="${TRY_TIER:-quick}"
for ID in "$@"; do
  out=$(VERIF_DIR=$SCR/verif VERIF_SEED="${VERIF_SEED:-0}" ./check "$ID" "$TIER" 2>&1); rc=$?
  sig=$(echo "$out" | grep -m3 -E "signature=|BUILD-FAILED|INCONCLUSIVE" | tr '\n' ' ' | cut -c1-240)
  echo "$ID exit=$rc $sig"
done
