#!/usr/bin/env bash
# tools/process_seeds.sh <ID> [check ids...]: confirm every /tmp/seed/out-<ID>/mK in its worktree and run the checks against it
ID="$1"; shift
CHECKS="${*:-$ID}"
for SD in /tmp/seed/out-$ID/m*; do
  [ -f "$SD/meta.json" ] || continue
  crates=$(python3 - "$SD" <<'PY'
import json,sys,re
m=json.load(open(sys.argv[1]+'/meta.json'))
cs=set()
for f in m.get('files',[]):
    mm=re.match(r'algorithms/([^/]+)/',f)
    cs.add(mm.group(1) if mm else 'linfa')
print(' '.join(sorted(cs)))
PY
)
  echo "== $ID/$(basename $SD) crates: $crates"
  /verif/tools/confirm_seed.sh /tmp/seed/wt-$ID "$SD" $crates 2>&1 | tail -1
  /verif/tools/try_seed.sh "$SD/patch.diff" $CHECKS
done
